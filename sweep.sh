#!/bin/bash
# Seed sweep (self-test, not a registered check): runs the given tier of the
# given properties under several VERIF_SEED values and reports any run that
# exits non-zero. Usage: ./sweep.sh quick "C01 C02" 2 21
TIER="${1:-quick}"; PROPS="${2:-C01}"; FROM="${3:-2}"; TO="${4:-21}"
cd "$(dirname "$0")"
bad=0
for p in $PROPS; do
  for s in $(seq $FROM $TO); do
    VERIF_SEED=$s ./check.sh $p $TIER > /tmp/sweep_${p}_${s}.log 2>&1
    rc=$?
    if [ $rc -ne 0 ]; then
      bad=$((bad+1)); echo "SWEEP-FAIL $p seed=$s rc=$rc"; grep -E "^(VIOLATION|violation|INFRA)" /tmp/sweep_${p}_${s}.log | cut -c1-400
    fi
  done
  echo "swept $p seeds $FROM..$TO"
done
echo "sweep done: $bad failing runs"
