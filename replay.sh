#!/bin/bash
# replay.sh <replay-file>: re-executes one trace in a fresh process with the
# engine that owns the property named in the file. Exit 1 + a VIOLATION line if
# the violation reproduces, 0 if nothing is found.
set -u
F="${1:?replay file}"
HERE="$(cd "$(dirname "$0")" && pwd)"
export GOFLAGS=-mod=mod GOPROXY=off GOSUMDB=off GOTOOLCHAIN=local CGO_ENABLED=1
GO=go1.26.8
command -v $GO >/dev/null 2>&1 || GO=/opt/veriftools/go1.26.8/bin/go
# rebuild from /repo's current working tree, like the checks do
(cd "$HERE/sim" && cp -f /repo/go.sum go.sum 2>/dev/null; mkdir -p "$HERE/bin")
PROP=$(python3 -c "import json,sys;print(json.load(open(sys.argv[1]))['property'])" "$F" 2>/dev/null)
if [ "$PROP" = C18 ]; then
  (cd "$HERE/sim" && $GO test -c -race -tags verif -o "$HERE/bin/e4.test" ./e4 >"$HERE/bin/build-e4.log" 2>&1) || { echo "INFRA: build of e4.test failed"; cat "$HERE/bin/build-e4.log"; exit 2; }
  RD=$(mktemp -d /dev/shm/verif-race-XXXXXX 2>/dev/null || mktemp -d)
  VSIM_ARGS="[\"replay\",\"$F\"]" GOMAXPROCS=1 GORACE="log_path=$RD/r halt_on_error=0 exitcode=0 suppress_equal_stacks=0 suppress_equal_addresses=0 history_size=3" \
    "$HERE/bin/e4.test" -test.run='^TestE4$' -test.timeout=0 -test.count=1 | grep -v -E '^(--- FAIL: TestE4|FAIL$|PASS$|\s+testing\.go:[0-9]+: race detected)'
  rc=${PIPESTATUS[0]}; rm -rf "$RD"; exit $rc
fi
(cd "$HERE/sim" && $GO build -tags verif -o "$HERE/bin/vsim" ./cmd/vsim >"$HERE/bin/build.log" 2>&1) || { echo "INFRA: build of vsim failed"; cat "$HERE/bin/build.log"; exit 2; }
exec "$HERE/bin/vsim" replay "$F"
