#!/bin/bash
# replay.sh <replay-file>: re-executes one trace in a fresh process with the
# engine that owns the property named in the file. Exit 1 + a VIOLATION line if
# the violation reproduces, 0 if nothing is found.
set -u
F="${1:?replay file}"
HERE="$(cd "$(dirname "$0")" && pwd)"
PROP=$(python3 -c "import json,sys;print(json.load(open(sys.argv[1]))['property'])" "$F" 2>/dev/null)
if [ "$PROP" = C18 ]; then
  [ -x "$HERE/bin/e4.test" ] || "$HERE/setup.sh" >/dev/null
  RD=$(mktemp -d /dev/shm/verif-race-XXXXXX 2>/dev/null || mktemp -d)
  VSIM_ARGS="[\"replay\",\"$F\"]" GOMAXPROCS=1 GORACE="log_path=$RD/r halt_on_error=0 exitcode=0 suppress_equal_stacks=0 suppress_equal_addresses=0 history_size=3" \
    "$HERE/bin/e4.test" -test.run='^TestE4$' -test.timeout=0 -test.count=1 | grep -v -E '^(--- FAIL: TestE4|FAIL$|PASS$|\s+testing\.go:[0-9]+: race detected)'
  rc=${PIPESTATUS[0]}; rm -rf "$RD"; exit $rc
fi
[ -x "$HERE/bin/vsim" ] || "$HERE/setup.sh" >/dev/null
exec "$HERE/bin/vsim" replay "$F"
