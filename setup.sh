#!/bin/bash
# Builds the framework offline from files on disk and warms the Go build cache.
set -u
export GOFLAGS=-mod=mod GOPROXY=off GOSUMDB=off GOTOOLCHAIN=local CGO_ENABLED=1
GO=go1.26.8
command -v $GO >/dev/null 2>&1 || GO=/opt/veriftools/go1.26.8/bin/go
cd "$(dirname "$0")/sim" || exit 2
cp -f /repo/go.sum go.sum
mkdir -p ../bin ../evidence ../replays
$GO build -tags verif -o ../bin/vsim ./cmd/vsim || exit 2
if [ -d e4 ]; then
  $GO test -c -race -tags verif -o ../bin/e4.test ./e4 || exit 2
fi
echo setup ok
