#!/usr/bin/env python3
"""Regenerates MANIFEST.json (kept as a script so the file stays consistent)."""
import json, subprocess

def hook_commits():
    out = subprocess.run(["git", "-C", "/repo", "log", "--format=%H %s"], capture_output=True, text=True).stdout
    return [l.split()[0] for l in out.splitlines() if " verif hook " in l]

E1_NOTE = ("Trusted base: the harness's reference model and comparison code (sim/model, sim/e1), the Go toolchain, tmpfs. "
           "Sampling, not proof: a clean batch is evidence only. The simulated disk does not model loss of unsynced writes.")

CLAIMED = {
 "C02": dict(level="exploration", engine="E1-history-simulator",
   text="Seeded deterministic simulation of WriteAttribute/DeleteAttribute histories (1-300 calls, several objects, compact<->dense crossings, size-changing overwrites) with Close/OpenForWrite restarts placed inside the history; after every restart the attribute map read back must equal a map model; failures are minimised and replayed twice before being reported.",
   technique="deterministic simulation: seeded attribute histories with restarts vs map model over a simulated disk",
   ref="DESIGN.md section 4 C02"),
 "C03": dict(level="exploration", engine="E1-history-simulator",
   text="Seeded deterministic simulation of namespace-building histories (groups, datasets, hard/soft/external links, dense groups, duplicates, missing parents, capacity exhaustion incl. one group filled to and beyond its 32 entries) followed by a restart; the reopened tree must equal a tree model and the two rejections the statement demands must be errors.",
   technique="deterministic simulation: seeded namespace histories with capacity exhaustion vs tree model over a simulated disk",
   ref="DESIGN.md section 4 C03"),
 "C04": dict(level="exploration", engine="E1-history-simulator",
   text="Seeded interleavings of operations over 2-6 live objects (datasets incl. variable-length ones whose heap collections are flushed later, groups; later OpenForWrite sessions; bursts that push an object into dense attribute storage); every prefix of each history is re-executed as its own run ending in Close+Open+full logical dump and consecutive dumps are compared, so the first operation after which an untouched object changes (or the file stops opening) is named; the write log of the simulated disk attributes a clobbering write to the function that made it.",
   technique="deterministic simulation: prefix re-execution differential with restart after every prefix",
   ref="DESIGN.md section 4 C04"),
 "C05": dict(level="exploration", engine="E1-history-simulator",
   text="Files produced by the seeded histories of the other E1 checks are decoded by an independent from-the-specification decoder (sim/specdec: imports nothing from /repo) that records the extent of every structure it visits: in bounds, below the recorded EOF, pairwise disjoint, checksums/signatures/versions consistent, and tree/shapes/types/element bytes/attributes equal to the reference model. 32 format-level deviations present on the pinned tree are listed as known findings by exact finding class; any other class is a violation.",
   technique="deterministic simulation histories + independent spec decoder of the closed file as oracle",
   note="Trusted base: the independent decoder sim/specdec (cross-checked on 543 bundled reference-library files: the 451 that are not deliberately corrupt or multi-file members decode without findings), the reference model, Go toolchain. Sampling, not proof.",
   ref="DESIGN.md section 4 C05"),
 "C10": dict(level="exploration", engine="E1-history-simulator",
   text="Seeded base files followed by 1-5 OpenForWrite sessions (restart: only file bytes survive, all writer memory lost) of 0-10 operations; after each session the logical dump must equal the model with exactly that session's successful operations; empty sessions must leave the file byte-identical (SHA-256). Every eighth run does the same on a copy of a bundled reference-library file (structures the library's own writer never produces): sessions add a scalar attribute to some dataset or do nothing, and everything the read API shows for every object must be as before, plus exactly the added attributes.",
   technique="deterministic simulation: multi-session open-modify-close histories vs model",
   ref="DESIGN.md section 4 C10"),
 "C12": dict(level="exploration", engine="E1-history-simulator",
   text="Seeded variable-length datasets (strings and sequences, element lengths around collection boundaries and above 64 KiB, several datasets sharing collections) are written, closed and reopened; the library must report a variable-length class of the written base type, an independent decoder resolves every element through the global heap (must equal the written bytes) and checks every GCOL collection, and every element is also read through the library's own global-heap readers (core.ParseGlobalHeapReference / ReadGlobalHeapCollection / GetObject) and compared with the written bytes.",
   technique="deterministic simulation histories + independent decoder of global heap collections",
   ref="DESIGN.md section 4 C12"),
 "C13": dict(level="exploration", engine="E1-history-simulator",
   text="Seeded Resize/Write/restart histories on resizable chunked datasets against an array model resized with the same calls (retain intersection, zero-fill, drop the rest); Resize within maxdims must succeed, beyond must fail.",
   technique="deterministic simulation: seeded resize/write/restart histories vs array model",
   ref="DESIGN.md section 4 C13"),
 "C16": dict(level="exploration", engine="E1-history-simulator",
   text="Seeded histories interleaving valid calls with calls built to fail at 31 validation and capacity points (incl. replacing an attribute by one that overflows the header, calls on closed handles and repeated Close); the model ignores every call that returned an error, so any trace a failed call leaves in the reopened file, any later misbehaviour and any panic is a violation. Transparency oracle: every history whose calls built to fail did fail is executed a second time without them; a call refused only after the rejected calls is a violation, and with equal outcomes the two closed files must hold equal logical content (rejection-storm workloads: one long name requested again 4-14 times in a group, then new long names).",
   technique="deterministic simulation: histories with failing calls vs model that ignores failed calls",
   ref="DESIGN.md section 4 C16"),
 "C17": dict(level="fault_enumeration", engine="E2-fault-simulator",
   text="Per workload (a simulated E1 history that writes a file, or a bundled reference file) faults are enumerated, not sampled: every truncation length (small files; structure boundaries +-1 plus a stratified sample for larger ones), every position k of a failing ReadAt in the reader's I/O sequence, every position k of a failing WriteAt/ReadAt/Sync and a torn variant of every write in the writer's I/O sequence. Relaxed oracle: error or exactly the fault-free answer; no silently missing members/attributes; no different ReadSlice values (centre and tail blocks); no panic; an unreported fault must change nothing - neither what the public read API returns nor what an independent decode of the file recovers (variable-length elements). Every reference file <= 4 KiB is part of every run in both reader modes. Worker processes run under an address-space limit and a hang watchdog; a process death is attributed to the announced trace and fault and reported after two fresh-process replays.",
   technique="deterministic fault enumeration over simulated I/O step sequences (EIO, torn writes, truncation) with golden-answer oracle",
   note="Trusted base: the fault layer behind the H3/H4 seams, the relaxed comparison (sim/e2), Go toolchain. Workloads are sampled (320 quick / 6000 thorough), fault positions per workload are exhaustive up to the stated bounds. Sync faults only test error propagation (tmpfs).",
   ref="DESIGN.md section 4 C17"),
 "C14": dict(level="exploration", engine="E3-structure-simulator",
   text="Seeded histories of the real WritableBTreeV2 API in every non-background rebalancing mode, node size randomised per run so that capacity is reached in short histories, with write-out + load-back on the simulated disk as a restart anywhere in the history; a map model is checked after every step (count, order, content, search/has, refusal at capacity, header counts in the written bytes, stored hash == independent lookup3), and after every operation every write of the structure must lie inside space the allocator handed out.",
   technique="deterministic simulation of the structure API with write/load restarts vs map model",
   note="Trusted base: the map model and own lookup3 (sim/specdec/checksum.go, checked against published vectors), Go toolchain. The incremental background mode is covered by C18's schedule simulator.",
   ref="DESIGN.md section 4 C14"),
 "C15": dict(level="exploration", engine="E3-structure-simulator",
   text="Seeded histories of the real WritableFractalHeap API with block size and max-object knobs randomised per run, volume below/at/above one direct block, write-out + load-back restarts anywhere; a byte-store model is checked after every step (every live id returns its bytes, ids distinct, object count, refused insert changes nothing), also through the read-only FractalHeap reader after each restart; contents include degenerate ones (all zero, all ones); 2% of the runs use a 128 KiB block so that an object of exactly the maximum managed size exists; every write of the structure must lie inside allocated space.",
   technique="deterministic simulation of the structure API with write/load restarts vs byte-store model",
   note="Trusted base: the byte-store model, Go toolchain. Free space is recorded as a probe, not enforced.",
   ref="DESIGN.md section 4 C15"),
 "C19": dict(level="exploration", engine="E1-history-simulator",
   text="Content part: seeded attribute histories are executed under seeded rebalancing configurations with toggles inserted at random points and again under the default configuration; dumps after restart must be identical. Index part (every fifth run): one seeded history of insert/update/delete/search on the attribute name index (WritableBTreeV2, node size randomised) is executed under the default configuration and under a seeded lazy configuration with toggles, with write-out + load-back on the simulated disk at the same points; call results and reloaded content must be identical (through the public FileWriter API the lazy/incremental/smart options are stored but never reach the delete path on this tree). Selector part: the real WorkloadDetector/ConfigSelector/SmartRebalancer.Evaluate run under a simulated clock (incl. backward and far-forward jumps as clock faults) over seeded observation sequences and all constraint settings; a recording or scripted strategy supplies the raw pre-gate decision so each gate's invariant is checked on every returned Decision.",
   technique="deterministic simulation: configuration differential; selector under a simulated clock with clock faults",
   note="Trusted base: the invariant checker in sim/e1/c19.go, the simulated Clock. The BTreeV2 adapter in the selector part is a stub (file size only).",
   ref="DESIGN.md section 4 C19"),
 "C18": dict(level="exploration", engine="E4-schedule-simulator",
   text="Three of the four workload kinds: each simulated run is one testing/synctest bubble inside a -race binary (the fourth, on the workload detector, uses inline interleavings at the injected Clock seam with lock probing: when the library reads the clock and the detector's lock is free, a whole second operation - Close, Record, a query - is executed right there; results must be those of a sequential order): caller tasks and the library's own ticker/monitor goroutines are serialised by seeded fake-clock delays at yield points (operation boundaries, every I/O call, H2 sites inside the rebalancers and the selector, timer firings) - no happens-before edge is added, so the race detector reports every unsynchronised conflicting access that occurs in the explored schedule. Oracles: no race report with a library frame (incl. sync-primitive misuse annotations), no panic, every Stop returns within the step budget (bounded liveness), no library goroutine alive after the last Stop, independent handles give the sequential results, the incremental-mode script gives the same call results and final index content as the same script without the background rebalancer, and a library mutex that is never released (which stalls the bubble in real time) is reported as a deadlock after a 15 s real-time limit; the deterministic buffer pool reports a scratch buffer that is released twice; a metrics snapshot must not change after it was taken; no monitor goroutine may be parked in its loop when Stop has returned (also when the context's owner cancelled it first); readers of damaged copies run next to healthy handles. Failing schedules are minimised over the explicit trace (scripts and delay lists) and must reproduce twice in fresh processes (up to 8 attempts: see note).",
   technique="deterministic simulation: seeded fake-time scheduler inside testing/synctest under the race detector; lock-probing inline interleavings at the Clock seam",
   note="Trusted base: Go's race detector and testing/synctest (go1.26.8), the scheduler in sim/e4/sched.go. Interleavings at the granularity of yield points, I/O calls and timer firings. A background goroutine sleeps at a yield point only if it wakes before its ticker's next firing (otherwise Go's select could find a tick and a stop request ready together and would choose with the runtime's unseeded PRNG); in smart-rebalancer traces where more than one caller uses Start/Stop background goroutines do not sleep at all (a caller blocked on the lifecycle mutex is not durably blocked in synctest). Measured residual nondeterminism at GOMAXPROCS=1 (the only setting workers use): about 1 run in 300, when the library makes two goroutines runnable at the same instant (wg.Done + go); replays therefore get up to 8 attempts to reproduce twice.",
   ref="DESIGN.md section 4 C18"),
 "C07": dict(level="exploration", engine="E2-fault-simulator",
   text="Storage-corruption fault injection: per workload (bundled reference file or file written by a simulated history) seeded, decoder-directed alterations of the stored bytes (boundary values over positions in every metadata structure, self-referential addresses, link-graph rewirings of version-2 object headers - a hard link pointed back at its own group or the root, optionally behind a first link message re-encoded as a soft link, checksum recomputed -, version-1 B-tree nodes turned into 12-60 level ladders of shared children, extent sweeps that set every aligned 8/4-byte field position of a structure's header part to all-ones / the sign bit / 2^64-16, random multi-byte mutations, truncations) are applied one at a time and everything reachable is read through the public API, in crash-tolerant worker processes under a 4 GiB address-space limit and a hang watchdog; a process death is attributed to the announced trace+mutation (allocation/overflow site taken from the dying goroutine's stack) and reported only after two fresh-process replays.",
   technique="deterministic simulation with stored-byte fault injection (seeded, decoder-directed), isolated crash-tolerant workers",
   note="Trusted base: the independent decoder for locating metadata structures (placement only), the resource oracle constants (1e5+64*size reads, 256 MiB+1100*size bytes), Go toolchain. Sampling, not proof; inputs > 4 MiB not explored.",
   ref="DESIGN.md section 4 C07"),
 "C08": dict(level="exploration", engine="E2-fault-simulator",
   text="Per run a seeded filter pipeline (any order of deflate/shuffle/Fletcher-32/LZF) and payload (0 B .. 64 KiB; rarely 1-4 MiB of one byte value for compression ratios above 1000:1): writer Apply/Remove (lossless), the reader's ApplyFilters on the same bytes and the reader's parser on the stored pipeline message (self-compatible), and stored-chunk fault injection - every single byte position of a Fletcher-32-protected chunk altered with three values, decoding must fail on both sides; half of the runs also take a filtered chunked dataset end to end through the public API over the simulated disk with a restart.",
   technique="deterministic simulation: writer/reader differential, stored-chunk byte-flip enumeration, end-to-end restart",
   note="Trusted base: the comparison code in sim/e2/c08.go. Payload generation at package level is plain input generation; the simulation contributes the stored-byte faults and the restart path.",
   ref="DESIGN.md section 4 C08"),
 "C01": dict(level="exploration", engine="E1-history-simulator",
   text="Seeded deterministic simulation of write/restart/read histories (all dataset types x ranks x layouts x superblock versions x data classes) against an executable reference model; what is compared after the restart is every read the library offers for the type: Read/ReadStrings/ReadCompound and, for numeric datasets, blocks through ReadSlice (centre block, tail block, whole extent; datasets with several hundred chunks included); every failing run is minimised and replayed twice in fresh processes before it is reported.",
   technique="deterministic simulation: seeded write/restart/read histories vs reference model over a simulated disk",
   ref="DESIGN.md section 4 C01"),
}

NOT_APPLICABLE = {
 "C06": "pure differential comparison of the reader against shipped h5dump outputs over a fixed corpus: no schedule, clock, fault, restart or interleaving for a simulator to control (DESIGN.md section 5)",
 "C09": "read-only functional equivalence of partial reads and the full read on one open file: nothing to schedule or fault (DESIGN.md section 5)",
 "C11": "pure encode/decode inversion at package level: a function of its input only (DESIGN.md section 5)",
 "C20": "pure arithmetic over finite domains, decidable by plain enumeration, no nondeterminism or fault in it (DESIGN.md section 5)",
}
PENDING = "check not built yet in this session (see DESIGN.md for the plan); not claimed until it passes the seed sweep"

def main():
    props = [json.loads(l)["id"] for l in open("/verif/properties.jsonl")]
    checks = []
    for pid in props:
        if pid not in CLAIMED:
            continue
        c = CLAIMED[pid]
        checks.append({
            "property_id": pid,
            "quick_cmd": f"./check.sh {pid} quick",
            "thorough_cmd": f"./check.sh {pid} thorough",
            "evidence_file": f"/verif/evidence/{pid}.json",
            "replay_cmd_template": "./replay.sh {path}",
            "engine": c["engine"],
            "level_claimed": {"category": c["level"], "text": c["text"], "design_ref": c["ref"]},
            "level_note": c.get("note", E1_NOTE),
            "technique": c["technique"],
        })
    na = []
    for pid in props:
        if pid in CLAIMED:
            continue
        na.append({"property_id": pid, "reason": NOT_APPLICABLE.get(pid, PENDING)})
    m = {
        "version": 1,
        "setup_cmd": "./setup.sh",
        "hooks": {
            "guard": "verif",
            "enable": "go build -tags verif (the harness module /verif/sim replaces github.com/scigolib/hdf5 with /repo and is always built with -tags verif)",
            "baseline_off_cmd": "cd /repo && go test -vet=off -count=1 -timeout 25m ./...",
            "source_commits": hook_commits(),
            "add_only": False,
        },
        "engines": [
            {"name": "E1-history-simulator", "path": "/verif/sim/e1", "serves_properties": [p for p in CLAIMED if CLAIMED[p]["engine"].startswith("E1")],
             "kind_free_text": "seeded operation histories with restarts through the real public API over the simulated disk, compared with an executable reference model"},
            {"name": "E3-structure-simulator", "path": "/verif/sim/e3", "serves_properties": [p for p in CLAIMED if CLAIMED[p]["engine"].startswith("E3")] + ["C19"],
             "kind_free_text": "the writable B-tree v2 and fractal heap (real code) driven through their exported API over the simulated disk, with write-out/load-back restarts and randomised tuning knobs, against map / byte-store models"},
            {"name": "E4-schedule-simulator", "path": "/verif/sim/e4", "serves_properties": [p for p in CLAIMED if CLAIMED[p]["engine"].startswith("E4")],
             "kind_free_text": "testing/synctest bubbles in a -race test binary; caller goroutines and the library's background goroutines serialised by seeded fake-clock delays at yield points; race reports, liveness and leak checks"},
            {"name": "E2-fault-simulator", "path": "/verif/sim/e2", "serves_properties": [p for p in CLAIMED if CLAIMED[p]["engine"].startswith("E2")] + ["C10"],
             "kind_free_text": "the same workloads and the bundled reference files re-run under an explicit fault plan (failing/torn I/O calls at every step, truncation at every length, altered stored bytes) with a relaxed golden-answer oracle; crash-tolerant worker processes"},
        ],
        "checks": checks,
        "notes": ("Hooks: H1/H2 internal/utils/verif_{on,off}.go + 6 added lines in bufferpool.go (add-only); "
                  "H3 internal/writer/verif_io_{on,off}.go and 4 rewritten lines in writer.go (field type *os.File -> fileHandle alias, wrapFile(osFile, filename) in both constructors, osFileOf in File()); "
                  "H4 file_verif_{on,off}.go and 2 rewritten lines in file.go (field type -> fileHandle alias, os.Open(filename) -> openFileHandle(os.Open, filename)). "
                  "With the tag off fileHandle is an alias of *os.File and the helpers are identity functions. add_only is therefore false. "
                  "Exit code 2 of a check means infrastructure trouble, never a violation."),
        "not_applicable": na,
    }
    json.dump(m, open("/verif/MANIFEST.json", "w"), indent=1)
    print("claimed:", [c["property_id"] for c in checks])

main()
