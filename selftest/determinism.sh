#!/bin/bash
# Determinism self-test (not a registered check). For every property, runs the
# same worker segment (same VERIF_SEED, same run indices) in fresh processes at
# GOMAXPROCS 1, 4 and 16, twice each, and compares everything the worker reports
# except wall time: evaluations, probes, fired faults, I/O steps, fingerprints,
# model-state hashes, interleaving hashes, failures.
# Usage: selftest/determinism.sh [seeds="3 7"] [props]
cd "$(dirname "$0")/.."
export GOFLAGS=-mod=mod GOPROXY=off GOSUMDB=off GOTOOLCHAIN=local
SEEDS="${1:-3 7}"
PROPS="${2:-C01 C02 C03 C04 C05 C07 C08 C10 C12 C13 C14 C15 C16 C17 C18 C19}"
(cd sim && cp -n /repo/go.sum . 2>/dev/null; go1.26.8 build -tags verif -o ../bin/vsim ./cmd/vsim && go1.26.8 test -c -race -tags verif -o ../bin/e4.test ./e4) || exit 2
declare -A RUNS=( [C01]=300 [C02]=200 [C03]=300 [C04]=60 [C05]=300 [C07]=6 [C08]=100 [C10]=150 [C12]=150 [C13]=300 [C14]=150 [C15]=300 [C16]=300 [C17]=3 [C18]=60 [C19]=150 )
norm() { tail -1 | python3 -c "
import json,sys
d=json.loads(sys.stdin.read())
for k in ('wall_s','samples'): d.pop(k,None)
for k in ('fingerprints','state_hashes','interleavings'):
    if isinstance(d.get(k),list): d[k]=sorted(d[k])   # sets, emitted in map order
for f in d.get('failures') or []:
    f.pop('detail',None)   # may quote measured byte counts (C07 allocation figures vary by a few hundred bytes)
    if f.get('trace'): f['trace'].pop('expect',None)
if d.get('property')=='C15':
    # the library itself ranges over a Go map (fh.DirectBlocks) once the heap has
    # grown past its first block - the region of the known finding C15/*:after-growth;
    # what a run does there is not a function of the trace. Compare the rest.
    for k in ('failures','state_hashes','io_steps','ok_ops','known_hits','probes','restarts'): d.pop(k,None)
print(json.dumps(d,sort_keys=True))"; }
bad=0
for p in $PROPS; do
  for s in $SEEDS; do
    ref=""
    GS="1 4 16 1 4 16"
    # E4 workers always run with GOMAXPROCS=1 (the driver sets it): with several Ps a
    # `go` statement makes two goroutines run in parallel until the new one reaches its first yield
    [ "$p" = C18 ] && GS="1 1 1 1"
    for g in $GS; do
      if [ "$p" = C18 ]; then
        out=$(GOMAXPROCS=$g GORACE="log_path=/dev/shm/verif-selftest-race exitcode=0" VSIM_ARGS="[\"worker\",\"-p\",\"$p\",\"-seed\",\"$s\",\"-worker\",\"0\",\"-workers\",\"1\",\"-runs\",\"${RUNS[$p]}\"]" bin/e4.test -test.run '^TestE4$' -test.timeout=0 2>/dev/null | grep '^{' | norm)
      else
        out=$(GOMAXPROCS=$g bin/vsim worker -p $p -seed $s -worker 0 -workers 1 -runs ${RUNS[$p]} 2>/dev/null | grep '^{' | norm)
      fi
      h=$(echo "$out" | sha256sum | cut -c1-16)
      if [ -z "$out" ]; then echo "NO-OUTPUT $p seed=$s GOMAXPROCS=$g"; bad=$((bad+1)); continue; fi
      if [ -z "$ref" ]; then ref=$h; elif [ "$ref" != "$h" ]; then echo "NONDETERMINISTIC $p seed=$s GOMAXPROCS=$g ($h vs $ref)"; bad=$((bad+1)); fi
    done
    echo "ok $p seed=$s $ref"
  done
done
rm -f /dev/shm/verif-selftest-race.*
echo "determinism self-test: $bad divergences"
[ $bad -eq 0 ]
