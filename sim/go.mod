module github.com/scigolib/hdf5/verifsim

go 1.25

require (
	github.com/anishathalye/porcupine v1.3.0
	github.com/scigolib/hdf5 v0.0.0
)

replace github.com/scigolib/hdf5 => /repo
