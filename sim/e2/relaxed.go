// Package e2 is the fault simulator: the workloads of E1 and the bundled
// reference files are re-run with a fault plan (truncation of the stored file,
// failing or torn I/O calls, altered stored bytes) and a relaxed oracle: every
// API result must be an error or exactly the fault-free answer.
package e2

import (
	"fmt"
	"reflect"
	"strings"

	"github.com/scigolib/hdf5/verifsim/e1"
)

// Relaxed compares what the reader returned under a fault (d) with the golden
// answer on the intact file with working I/O (g). Every result must be an
// error or exactly the golden result; members and attributes may not be
// silently omitted. Returns "" when the relaxed property holds, otherwise a
// stable class and a detail.
func Relaxed(g, d *e1.Dump) (class, detail string) {
	if ps := d.Panics(); len(ps) > 0 {
		return "panic:" + panicSite(ps[0]), "reader panicked: " + ps[0]
	}
	if d.OpenErr != "" {
		return "", "" // an error is always acceptable
	}
	if g.OpenErr != "" {
		// the intact file does not open but the damaged one does: then every
		// object it shows is "different data"
		return "opens-although-intact-file-does-not", "damaged file opened; intact file fails with " + g.OpenErr
	}
	for i := range g.Objs {
		go_ := &g.Objs[i]
		do := d.ByPath[go_.Path]
		if do == nil {
			return "member-omitted:" + go_.Kind, fmt.Sprintf("%s (%s) is silently missing (no error reported)", go_.Path, go_.Kind)
		}
		if do.Kind != go_.Kind {
			return "kind-differs", go_.Path
		}
		if c, det := relaxedObj(go_, do); c != "" {
			return c, go_.Path + ": " + det
		}
	}
	for i := range d.Objs {
		if g.ByPath[d.Objs[i].Path] == nil {
			return "extra-member", d.Objs[i].Path + " appears only in the damaged file"
		}
	}
	return "", ""
}

func relaxedObj(g, d *e1.ObjDump) (string, string) {
	if g.Kind == "group" {
		if !reflect.DeepEqual(g.Children, d.Children) {
			return "children-differ", fmt.Sprintf("children %v, intact %v", d.Children, g.Children)
		}
	}
	// attributes: error, or exactly the golden list
	if d.AttrsErr == "" && g.AttrsErr == "" {
		if len(d.Attrs) < len(g.Attrs) {
			return "attributes-omitted:" + g.Kind, fmt.Sprintf("%d attributes returned without error, intact file has %d", len(d.Attrs), len(g.Attrs))
		}
		if len(d.Attrs) != len(g.Attrs) {
			return "attributes-differ", "attribute count"
		}
		for i := range g.Attrs {
			a, b := &g.Attrs[i], &d.Attrs[i]
			if a.Name != b.Name || a.Class != b.Class || a.Size != b.Size || !reflect.DeepEqual(a.Dims, b.Dims) || string(a.Data) != string(b.Data) {
				return "attribute-value-differs", "attribute " + a.Name
			}
		}
	}
	if g.Kind != "dataset" {
		return "", ""
	}
	if d.InfoErr == "" && g.InfoErr == "" && stripAddr(d.Info) != stripAddr(g.Info) {
		return "info-differs", d.Info + " vs " + g.Info
	}
	if d.F64Err == "" && g.F64Err == "" && !sameF64(g.F64, d.F64) {
		return "values-differ", fmt.Sprintf("Read returned %d values that differ from the intact file's %d", len(d.F64), len(g.F64))
	}
	if d.F64Err == "" && g.F64Err != "" && len(d.F64) > 0 {
		return "values-although-intact-read-fails", "Read returned values; on the intact file it fails: " + g.F64Err
	}
	if d.StrsErr == "" && g.StrsErr == "" && !reflect.DeepEqual(g.Strs, d.Strs) {
		return "strings-differ", "ReadStrings differs from the intact file"
	}
	if d.SliceErr == "" && g.SliceErr == "" && g.SliceSum != "" && d.SliceSum != "" && d.SliceSum != g.SliceSum {
		return "slice-differs", "ReadSlice of a centre block differs from the intact file"
	}
	if d.CompErr == "" && g.CompErr == "" && !e1.SameCompound(g.Comp, d.Comp) {
		return "compound-differs", "ReadCompound differs from the intact file"
	}
	return "", ""
}

func stripAddr(s string) string {
	if i := strings.Index(s, "address=0x"); i >= 0 {
		j := i + len("address=0x")
		for j < len(s) && strings.ContainsRune("0123456789abcdefABCDEF", rune(s[j])) {
			j++
		}
		return s[:i] + "address=X" + s[j:]
	}
	return s
}

func sameF64(a, b []float64) bool {
	if len(a) != len(b) {
		return false
	}
	for i := range a {
		if a[i] != b[i] && !(a[i] != a[i] && b[i] != b[i]) {
			return false
		}
	}
	return true
}

// panicSite reduces a panic message to a stable class.
func panicSite(msg string) string {
	return e1.ErrClass(msg)
}
