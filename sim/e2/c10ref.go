package e2

import (
	"crypto/sha256"
	"encoding/binary"
	"fmt"
	"math"
	"os"
	"path/filepath"
	"sort"

	hdf5 "github.com/scigolib/hdf5"
	"github.com/scigolib/hdf5/verifsim/e1"
	"github.com/scigolib/hdf5/verifsim/harness"
	"github.com/scigolib/hdf5/verifsim/rng"
	"github.com/scigolib/hdf5/verifsim/trace"
)

// C10 on files the library did not write: a bundled reference-library file is
// copied, reopened for modification in 1-3 sessions (restart: only the bytes of
// the file survive between sessions) that add or overwrite a scalar attribute on
// some of its datasets - or do nothing - and after every session everything the
// public read API shows for every object that was not modified must be what it
// showed before, modified datasets must show their old attributes plus exactly
// the new ones, and a session without a successful call must leave the file
// byte-identical. Reference files carry structures the library's own writer
// never produces (version-1 object headers, old superblocks, other layouts).

func init() {
	p := harness.Registry["C10"]
	if p == nil {
		return
	}
	oldGen, oldExec := p.Gen, p.Exec
	p.Gen = func(r *rng.R, tier string, steer bool, idx int) *trace.Trace {
		if idx%8 == 7 { // every eighth run; no draw from r, so the other runs' traces are unchanged
			return genC10Ref(r, tier)
		}
		return oldGen(r, tier, steer, idx)
	}
	p.Exec = func(t *trace.Trace, dir string) *harness.RunResult {
		if t.Config.Mode == "refbase" {
			return execC10Ref(t, dir)
		}
		return oldExec(t, dir)
	}
}

func genC10Ref(r *rng.R, tier string) *trace.Trace {
	files := Corpus(64 << 10)
	if tier == "thorough" {
		files = Corpus(1 << 20)
	}
	base := rng.Pick(r, files)
	for tries := 0; tries < 20 && HasHugeDataset(base); tries++ {
		base = rng.Pick(r, files)
	}
	t := &trace.Trace{Config: trace.Config{SB: 2, Base: base, Mode: "refbase"}}
	for s := 0; s < r.Range(1, 3); s++ {
		t.Ops = append(t.Ops, trace.Op{Op: "restart", Mode: "open_for_write"})
		n := r.Range(0, 3)
		if r.Chance(0.3) {
			n = 0 // a session that modifies nothing
		}
		for k := 0; k < n; k++ {
			kind := rng.Pick(r, []string{"int32", "float64"})
			v := &trace.Value{Kind: kind}
			if kind == "int32" {
				v.I = []int64{int64(int32(r.Uint64()))}
			} else {
				v.F = []uint64{math.Float64bits(float64(r.Range(-1000, 1000)) / 8)}
			}
			t.Ops = append(t.Ops, trace.Op{Op: "write_attr", N: r.Intn(64), Name: fmt.Sprintf("verif_%d", r.Intn(3)), Value: v})
		}
	}
	return t
}

func execC10Ref(t *trace.Trace, dir string) *harness.RunResult {
	res := &harness.RunResult{Probes: map[string]int{}, Fired: map[string]int{}}
	viol := func(oracle, class, detail string) {
		res.Violations = append(res.Violations, trace.Violation{Property: "C10", Oracle: oracle, Class: class, Detail: detail})
	}
	work := filepath.Join(dir, "ref.h5")
	defer os.Remove(work)
	if err := copyFile(filepath.Join(corpusRoot, t.Config.Base), work); err != nil {
		res.Infra = err.Error()
		return res
	}
	golden := e1.DumpFile(work, e1.DumpOpts{})
	if golden.OpenErr != "" || golden.Panic != "" {
		res.Probes["refbase:base-unreadable"]++
		return res
	}
	var dsets []string
	for i := range golden.Objs {
		if golden.Objs[i].Kind == "dataset" {
			dsets = append(dsets, golden.Objs[i].Path)
		}
	}
	sort.Strings(dsets)
	sum := func() [32]byte {
		b, _ := os.ReadFile(work)
		return sha256.Sum256(b)
	}
	type newAttr struct {
		data []byte
	}
	added := map[string]map[string]newAttr{} // path -> name -> value bytes
	guard := func(f func() error) (err error, pan string) {
		defer func() {
			if r := recover(); r != nil {
				pan = fmt.Sprint(r) + " @" + e1.PanicSite()
			}
		}()
		return f(), ""
	}
	sessions, mods := 0, 0
	i := 0
	for i < len(t.Ops) {
		if t.Ops[i].Op != "restart" {
			i++
			continue
		}
		i++
		before := sum()
		var fw *hdf5.FileWriter
		err, pan := guard(func() error {
			var err error
			fw, err = hdf5.OpenForWrite(work, hdf5.OpenReadWrite)
			return err
		})
		if pan != "" {
			viol("panic", "open_for_write:"+e1.ErrClass(pan), pan)
			return res
		}
		ok, calls := 0, 0
		if err != nil {
			res.Probes["refbase:open-for-write-refused"]++
		} else {
			for ; i < len(t.Ops) && t.Ops[i].Op != "restart"; i++ {
				op := &t.Ops[i]
				if op.Op != "write_attr" || len(dsets) == 0 {
					continue
				}
				path := dsets[op.N%len(dsets)]
				calls++
				var val interface{}
				var data []byte
				if op.Value.Kind == "int32" {
					val = int32(op.Value.I[0])
					data = binary.LittleEndian.AppendUint32(nil, uint32(int32(op.Value.I[0])))
				} else {
					val = math.Float64frombits(op.Value.F[0])
					data = binary.LittleEndian.AppendUint64(nil, op.Value.F[0])
				}
				err, pan := guard(func() error {
					ds, err := fw.OpenDataset(path)
					if err != nil {
						return err
					}
					return ds.WriteAttribute(op.Name, val)
				})
				if pan != "" {
					viol("panic", "write_attr:"+e1.ErrClass(pan), pan)
					_, _ = guard(func() error { return fw.Close() })
					return res
				}
				if err != nil {
					res.Probes["refbase:attr-refused:"+e1.ErrClass(err.Error())]++
					continue
				}
				if added[path] == nil {
					added[path] = map[string]newAttr{}
				}
				added[path][op.Name] = newAttr{data}
				ok++
			}
			cerr, pan := guard(func() error { return fw.Close() })
			if pan != "" {
				viol("panic", "close:"+e1.ErrClass(pan), pan)
				return res
			}
			if cerr != nil {
				res.Probes["refbase:close-error"]++
			}
		}
		sessions++
		mods += ok
		res.Restarts++
		// (a refused call may leave unreferenced bytes behind - what the statement
		// protects then is the logical content, compared below)
		if calls == 0 && sum() != before {
			viol("empty-session", "file-bytes-changed", fmt.Sprintf("session %d made no call but the file's bytes changed (%s)", sessions, t.Config.Base))
			return res
		}
		// everything not modified must read as before
		d := e1.DumpFile(work, e1.DumpOpts{})
		if d.Panic != "" {
			viol("panic", "reader:"+e1.ErrClass(d.Panic), d.Panic)
			return res
		}
		if d.OpenErr != "" {
			viol("reopen", "open-error", fmt.Sprintf("after session %d the file no longer opens: %s", sessions, d.OpenErr))
			return res
		}
		if len(d.Objs) != len(golden.Objs) {
			viol("tree", "object-count", fmt.Sprintf("after session %d the file shows %d objects, before %d", sessions, len(d.Objs), len(golden.Objs)))
			return res
		}
		for k := range golden.Objs {
			g := golden.Objs[k]
			o := d.ByPath[g.Path]
			if o == nil {
				viol("tree", "missing:"+g.Kind, g.Path+" is no longer listed")
				return res
			}
			oc := *o
			if na := added[g.Path]; len(na) > 0 {
				// modified dataset: old attributes (unless replaced) plus exactly the new ones
				want := map[string][]byte{}
				for _, a := range g.Attrs {
					want[a.Name] = a.Data
				}
				for n, v := range na {
					want[n] = v.data
				}
				if o.AttrsErr != "" {
					viol("attr-map", "attributes-error", fmt.Sprintf("%s: %s", g.Path, o.AttrsErr))
					return res
				}
				if len(o.Attrs) != len(want) {
					viol("attr-map", "count", fmt.Sprintf("%s shows %d attributes, want %d", g.Path, len(o.Attrs), len(want)))
					return res
				}
				for _, a := range o.Attrs {
					w, present := want[a.Name]
					if !present || string(w) != string(a.Data) {
						viol("attr-map", "bytes", fmt.Sprintf("%s attribute %q differs from what was there / was written", g.Path, a.Name))
						return res
					}
				}
				oc.Attrs, g.Attrs = nil, nil
				oc.Names, g.Names = nil, nil
				oc.AttrsErr, g.AttrsErr = "", ""
			}
			if same, why := g.Equal(&oc); !same {
				cls := "untouched-object"
				if len(added[g.Path]) > 0 {
					cls = "modified-object-other-content"
				}
				viol(cls, why, fmt.Sprintf("after session %d (%s): %s changed (%s)", sessions, t.Config.Base, g.Path, why))
				return res
			}
		}
	}
	res.Ops = len(t.Ops)
	res.OKOps = mods
	res.NonTrivial = sessions >= 1 && len(golden.Objs) > 1
	res.Probes["refbase-runs"]++
	if mods > 0 {
		res.Probes["refbase:modified"]++
	}
	res.Fingerprint = fmt.Sprintf("refbase|%s|s%d|m%d", t.Config.Base, sessions, min(mods, 3))
	return res
}
