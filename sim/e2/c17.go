package e2

import (
	"fmt"
	"io"
	"os"
	"path/filepath"
	"sort"
	"strings"
	"time"

	"github.com/scigolib/hdf5/verifsim/disk"
	"github.com/scigolib/hdf5/verifsim/e1"
	"github.com/scigolib/hdf5/verifsim/harness"
	"github.com/scigolib/hdf5/verifsim/rng"
	"github.com/scigolib/hdf5/verifsim/specdec"
	"github.com/scigolib/hdf5/verifsim/trace"
)

const corpusRoot = "/repo/testdata"

var corpusCache []string

// Corpus lists the bundled reference files (relative paths), sorted.
func Corpus(maxSize int64) []string {
	if corpusCache == nil {
		_ = filepath.Walk(corpusRoot, func(p string, info os.FileInfo, err error) error {
			if err != nil || info.IsDir() {
				return nil
			}
			if (strings.HasSuffix(p, ".h5") || strings.HasSuffix(p, ".hdf5")) && info.Size() <= 4<<20 && info.Size() > 0 {
				rel, _ := filepath.Rel(corpusRoot, p)
				corpusCache = append(corpusCache, rel)
			}
			return nil
		})
		sort.Strings(corpusCache)
	}
	var out []string
	for _, r := range corpusCache {
		if st, err := os.Stat(filepath.Join(corpusRoot, r)); err == nil && st.Size() <= maxSize {
			out = append(out, r)
		}
	}
	return out
}

var bigCache = map[string]bool{}

// HasHugeDataset reports whether a corpus file declares a dataset whose full
// read legitimately needs more than 64 MiB (extent x element size), judged by
// the independent decoder. Reading such a file in full is not a fault scenario
// and would only exhaust the worker's address-space limit.
func HasHugeDataset(rel string) bool {
	if v, ok := bigCache[rel]; ok {
		return v
	}
	huge := false
	if b, err := os.ReadFile(filepath.Join(corpusRoot, rel)); err == nil {
		r := specdec.Decode(b)
		for _, o := range r.Objects {
			if o.Kind != "dataset" || o.Type == nil {
				continue
			}
			n := uint64(o.Type.Size)
			for _, d := range o.Dims {
				if d != 0 && n > (64<<20)/d {
					huge = true
					break
				}
				n *= d
			}
			if n > 64<<20 {
				huge = true
			}
		}
	}
	bigCache[rel] = huge
	return huge
}

func copyFile(src, dst string) error {
	in, err := os.Open(src)
	if err != nil {
		return err
	}
	defer in.Close()
	out, err := os.Create(dst)
	if err != nil {
		return err
	}
	defer out.Close()
	_, err = io.Copy(out, in)
	return err
}

// produceBase materialises the base file of a trace: a corpus file, or the
// file written by executing the trace's operations fault-free.
func produceBase(t *trace.Trace, dir string) (string, error) {
	base := filepath.Join(dir, "base.h5")
	_ = os.Remove(base)
	if t.Config.Base != "" {
		return base, copyFile(filepath.Join(corpusRoot, t.Config.Base), base)
	}
	wt := t.Clone()
	wt.Faults = nil
	out := e1.Run(wt, e1.Options{Dir: dir, Property: t.Property, KeepFile: true, NoFinalCheck: true, SkipValues: true})
	if out.Path == "" {
		return "", fmt.Errorf("no file produced")
	}
	return base, os.Rename(out.Path, base)
}

// dumpUnder reads everything from path through the simulated disk with the
// given step-indexed faults installed.
func dumpUnder(path string, faults []trace.Fault, budget int) (*e1.Dump, *disk.Sim) {
	sim := disk.NewSim()
	sim.SetFaults(faults)
	sim.ReadBudget = budget
	disk.Install(sim)
	pool := &disk.Pool{Mode: "plain"}
	disk.InstallPool(pool)
	defer disk.Install(nil)
	defer disk.InstallPool(nil)
	d := e1.DumpFile(path, e1.DumpOpts{Extra: true})
	return d, sim
}

// truncationLengths chooses the lengths to try: all of them for small files,
// otherwise every structure boundary +-1 (from the independent decoder's
// extent map) plus a stratified seeded sample.
func truncationLengths(path string, size int64, seed uint64, exhaustiveLimit int64, sample int) []int64 {
	var ls []int64
	if size <= exhaustiveLimit {
		for l := size - 1; l >= 0; l-- {
			ls = append(ls, l)
		}
		return ls
	}
	set := map[int64]bool{}
	if b, err := os.ReadFile(path); err == nil {
		r := specdec.Decode(b)
		for _, e := range r.Extents {
			for _, x := range []int64{int64(e.Start) - 1, int64(e.Start), int64(e.Start) + 1, int64(e.End) - 1, int64(e.End), int64(e.End) + 1} {
				if x >= 0 && x < size {
					set[x] = true
				}
			}
		}
	}
	rr := rng.New(seed, "trunc-sample")
	stride := size / int64(sample)
	if stride < 1 {
		stride = 1
	}
	for l := int64(0); l < size; l += stride {
		x := l + int64(rr.Intn(int(stride)))
		if x < size {
			set[x] = true
		}
	}
	for l := range set {
		ls = append(ls, l)
	}
	sort.Slice(ls, func(i, j int) bool { return ls[i] > ls[j] })
	return ls
}

func genC17(r *rng.R, tier string, steer bool, idx int) *trace.Trace {
	var t *trace.Trace
	// The small reference files (<= 4 KiB: every truncation length and every read
	// position costs about a second of one core per file) are part of every run,
	// not sampled: run indices 0 .. 2*len-1 enumerate them in both reader modes.
	if small := Corpus(4096); idx < 2*len(small) {
		if base := small[idx/2]; !HasHugeDataset(base) {
			t = &trace.Trace{Config: trace.Config{SB: 2, Base: base, Mode: []string{"trunc", "readfault"}[idx%2]}}
			if tier == "thorough" {
				t.Config.Extra = append(t.Config.Extra, "thorough")
			}
			return t
		}
	}
	mode := rng.Pick(r, []string{"trunc", "trunc", "readfault", "readfault", "writefault", "writefault", "writefault"})
	useCorpus := mode != "writefault" && r.Chance(0.35)
	if useCorpus {
		files := Corpus(256 << 10)
		if tier == "thorough" {
			files = Corpus(1 << 20)
		}
		base := rng.Pick(r, files)
		for tries := 0; tries < 20 && HasHugeDataset(base); tries++ {
			base = rng.Pick(r, files)
		}
		t = &trace.Trace{Config: trace.Config{SB: 2, Base: base}}
	} else {
		// library-written workload: reuse the E1 generators (small histories)
		for {
			t = e1.GenForFaults(r, tier, steer)
			if len(t.Ops) <= 24 {
				break
			}
		}
	}
	t.Config.Mode = mode
	if tier == "thorough" {
		t.Config.Extra = append(t.Config.Extra, "thorough")
	}
	return t
}

type c17ctx struct {
	t    *trace.Trace
	res  *harness.RunResult
	seen map[string]bool
}

func (c *c17ctx) violate(oracle, class, detail string, f trace.Fault) {
	v := trace.Violation{Property: "C17", Oracle: oracle, Class: class, Detail: detail}
	if c.seen[v.Signature()] {
		return
	}
	c.seen[v.Signature()] = true
	c.res.Violations = append(c.res.Violations, v)
	if len(c.t.Faults) == 0 {
		nt := c.t.Clone()
		nt.Faults = []trace.Fault{f}
		c.res.Narrow[v.Signature()] = nt
	}
}

func execC17(t *trace.Trace, dir string) *harness.RunResult {
	res := &harness.RunResult{Probes: map[string]int{}, Fired: map[string]int{}, Narrow: map[string]*trace.Trace{}}
	skip, ex := harness.TakeSkipSub(), 0
	// done reports whether the sub-run about to start was already executed by a
	// previous worker segment that died in it
	done := func() bool {
		ex++
		return ex <= skip
	}
	// Wall-clock budget of ONE workload (a file with thousands of chunks costs a
	// full chunk-iterator pass per fault position): when it is used up the rest
	// of this workload's fault positions are left out and counted in a probe. It
	// bounds coverage, never a verdict; replays of a single fault are unaffected.
	began := time.Now()
	budget := 45 * time.Second
	if len(t.Faults) > 0 {
		budget = time.Hour
	}
	overBudget := func() bool {
		if time.Since(began) > budget {
			res.Probes["workload-cut-by-time-budget"]++
			return true
		}
		return false
	}
	c := &c17ctx{t: t, res: res, seen: map[string]bool{}}
	quick := true
	for _, x := range t.Config.Extra {
		if x == "thorough" {
			quick = false
		}
	}
	switch t.Config.Mode {
	case "trunc", "readfault":
		base, err := produceBase(t, dir)
		if err != nil {
			res.Infra = "cannot produce base file: " + err.Error()
			return res
		}
		defer os.Remove(base)
		golden, gsim := dumpUnder(base, nil, 0)
		if golden.Panic != "" {
			// a panic on the intact file is C07's business; nothing to compare against
			res.Probes["golden-panics"]++
			return res
		}
		nonEmpty := golden.OpenErr == "" && len(golden.Objs) > 1
		st, _ := os.Stat(base)
		size := st.Size()
		if t.Config.Mode == "trunc" {
			work := filepath.Join(dir, "work.h5")
			if err := copyFile(base, work); err != nil {
				res.Infra = err.Error()
				return res
			}
			defer os.Remove(work)
			var lens []int64
			for _, f := range t.Faults {
				if f.Kind == "truncate" {
					lens = append(lens, f.Len)
				}
			}
			if len(lens) == 0 {
				lim, sample := int64(16<<10), 400
				if !quick {
					lim, sample = 64<<10, 4000
				}
				lens = truncationLengths(base, size, t.Seed, lim, sample)
			} else {
				sort.Slice(lens, func(i, j int) bool { return lens[i] > lens[j] })
			}
			for _, l := range lens {
				if l >= size {
					continue
				}
				if err := os.Truncate(work, l); err != nil {
					res.Infra = err.Error()
					return res
				}
				if done() {
					continue
				}
				if overBudget() {
					break
				}
				harness.AnnounceFault(trace.Fault{Kind: "truncate", Len: l})
				d, _ := dumpUnder(work, nil, 0)
				res.SubRuns++
				res.Fired["truncate"]++
				if cls, det := Relaxed(golden, d); cls != "" {
					c.violate("truncation", cls, fmt.Sprintf("file cut at %d of %d bytes: %s", l, size, det), trace.Fault{Kind: "truncate", Len: l})
				}
			}
		} else {
			var ks []int
			for _, f := range t.Faults {
				if f.Kind == "read_eio" {
					ks = append(ks, f.AtStep)
				}
			}
			if len(ks) == 0 {
				n := gsim.Step
				maxPos := 3000
				if !quick {
					maxPos = 100000
				}
				stride := 1
				if n > maxPos {
					stride = n/maxPos + 1
				}
				for k := 1; k <= n; k += stride {
					ks = append(ks, k)
				}
			}
			for _, k := range ks {
				if done() {
					continue
				}
				if overBudget() {
					break
				}
				harness.AnnounceFault(trace.Fault{Kind: "read_eio", AtStep: k})
				d, sim := dumpUnder(base, []trace.Fault{{Kind: "read_eio", AtStep: k}}, 0)
				res.SubRuns++
				if sim.Fired["read_eio"] == 0 {
					continue
				}
				res.Fired["read_eio"]++
				if cls, det := Relaxed(golden, d); cls != "" {
					fn := "?"
					if len(sim.FiredFns) > 0 {
						fn = sim.FiredFns[0]
					}
					c.violate("read-fault", cls+"@"+fn, fmt.Sprintf("ReadAt call %d failed: %s", k, det), trace.Fault{Kind: "read_eio", AtStep: k})
				}
			}
		}
		res.NonTrivial = nonEmpty && res.SubRuns > 0
		src := "lib"
		if t.Config.Base != "" {
			src = "ref:" + t.Config.Base
		}
		res.Fingerprint = fmt.Sprintf("%s|%s|%d|%d", t.Config.Mode, src, size, len(golden.Objs))
	case "writefault":
		wt := t.Clone()
		wt.Faults = nil
		golden := e1.Run(wt, e1.Options{Dir: dir, Property: "C17", NoFinalCheck: true, KeepLog: true, KeepFile: true})
		goldenDecoded := decodedDigest(golden.Path)
		if golden.Path != "" {
			_ = os.Remove(golden.Path)
		}
		if golden.Final == nil || golden.Final.OpenErr != "" || golden.Final.Panic != "" {
			res.Probes["golden-unusable"]++
			return res
		}
		res.Ops, res.OKOps = golden.Ops, golden.OKOps
		// fault positions: every I/O step of the writer (before the final dump)
		type pos struct {
			k    int
			kind string
			keep int
		}
		var ps []pos
		if len(t.Faults) > 0 {
			for _, f := range t.Faults {
				ps = append(ps, pos{f.AtStep, f.Kind, f.Keep})
			}
		} else {
			n := golden.WriterSteps
			maxPos := 400
			if !quick {
				maxPos = 5000
			}
			stride := 1
			if n > maxPos {
				stride = n/maxPos + 1
			}
			for _, le := range golden.Log {
				if le.Step > n {
					break
				}
				if le.Step%stride != 0 && stride > 1 {
					continue
				}
				switch le.Op {
				case "write":
					ps = append(ps, pos{le.Step, "write_eio", 0})
					if le.Len > 1 {
						ps = append(ps, pos{le.Step, "write_torn", le.Len / 2})
					}
				case "read":
					ps = append(ps, pos{le.Step, "read_eio", 0})
				case "sync":
					ps = append(ps, pos{le.Step, "sync_eio", 0})
				}
			}
		}
		for _, p := range ps {
			ft := wt.Clone()
			f := trace.Fault{Kind: p.kind, AtStep: p.k, Keep: p.keep}
			ft.Faults = []trace.Fault{f}
			if done() {
				continue
			}
			if overBudget() {
				break
			}
			harness.AnnounceFault(f)
			out := e1.Run(ft, e1.Options{Dir: dir, Property: "C17", NoFinalCheck: true, KeepFile: true})
			outPath := out.Path
			rmOut := func() {
				if outPath != "" {
					_ = os.Remove(outPath)
					outPath = ""
				}
			}
			res.SubRuns++
			if len(out.FiredOps) == 0 {
				rmOut()
				continue
			}
			res.Fired[p.kind]++
			fn := "?"
			if len(out.FiredFns) > 0 {
				fn = out.FiredFns[0]
			}
			for _, v := range out.Violations {
				if v.Oracle == "panic" {
					c.violate("panic-under-"+p.kind, v.Class, v.Detail, f)
				}
			}
			if out.ClosePanic != "" {
				c.violate("panic-under-"+p.kind, "close:"+e1.ErrClass(out.ClosePanic), out.ClosePanic, f)
			}
			if out.Final != nil && out.Final.Panic != "" {
				c.violate("panic-under-"+p.kind, "reader:"+e1.ErrClass(out.Final.Panic), out.Final.Panic, f)
			}
			op := out.FiredOps[0]
			reported := false
			switch {
			case op >= 0 && op < len(out.Results):
				reported = !out.Results[op].OK() || out.Results[op].Skipped
				// restart ops inside the history perform Close+Open: their own errors are not recorded per op
				if ft.Ops[op].Op == "restart" || ft.Ops[op].Op == "close_file" {
					reported = reported || out.CloseErr != ""
					if !reported {
						reported = true // not attributable: do not guess
					}
				}
			case op < 0:
				reported = true // file creation: a failing CreateForWrite aborts the run
			default:
				reported = out.CloseErr != ""
			}
			if reported {
				res.Probes["fault-reported-as-error"]++
				rmOut()
				continue
			}
			// every call returned nil although the fault fired: then the result
			// after restart must be exactly the fault-free result
			if out.Final == nil {
				rmOut()
				continue
			}
			if ok, why := golden.Final.Equal(out.Final); !ok {
				c.violate("swallowed-io-error", p.kind+"@"+fn, fmt.Sprintf("%s at I/O step %d (in %s) was not reported by any call, and the reopened file differs from the fault-free one: %s", p.kind, p.k, fn, why), f)
			} else if dd := decodedDigest(outPath); goldenDecoded != "" && dd != "" && dd != goldenDecoded {
				// content the public read API cannot show (variable-length elements
				// resolved through the global heap), as the independent decoder sees it
				c.violate("swallowed-io-error", p.kind+"@"+fn, fmt.Sprintf("%s at I/O step %d (in %s) was not reported by any call, and the stored content (independent decode: datasets, variable-length elements, attributes) differs from the fault-free file", p.kind, p.k, fn), f)
			} else {
				res.Probes["fault-without-effect"]++
			}
			rmOut()
		}
		res.NonTrivial = res.SubRuns > 0 && golden.OKOps > 0
		res.Fingerprint = fmt.Sprintf("writefault|sb%d|%d|%d", t.Config.SB, golden.WriterSteps, golden.OKOps)
	}
	return res
}

func init() {
	harness.Register(&harness.Prop{
		ID: "C17", Engine: "E2", Level: "fault_enumeration", Gen: genC17, Exec: execC17,
		Runs:      map[string]int{"quick": 1000, "thorough": 16000},
		Rule:      "per workload (an E1 history that writes a file, or a bundled reference file) faults are ENUMERATED: every truncation length 0..size-1 (files <= 16 KiB quick / 64 KiB thorough; larger: every structure boundary +-1 plus a stratified sample), every position k of a failing ReadAt in the reader's I/O sequence, and for writers every position k of a failing WriteAt/ReadAt/Sync plus a torn (half-persisted) variant of every write; relaxed oracle: each API result is an error or exactly the fault-free result, members/attributes never silently missing, no panic, and a fault that no call reported must leave the reopened file identical to the fault-free one; evaluations counts workloads plus every enumerated fault run; non-trivial = the workload's golden answer is non-empty and at least one fault fired inside an operation; distinct by (mode, workload identity, size, object count)",
		Technique: "deterministic fault enumeration over the I/O step sequence of simulated runs (failing/torn calls, truncation) with a relaxed golden-answer oracle",
		Assumptions: []string{"the statement is silent about file content after a call failed with an I/O error: only 'no panic' and 'an unreported fault changes nothing' are checked there",
			"faults fire on the library's own file handles through the H3/H4 seams; tmpfs Sync is a no-op so sync faults test only error propagation"},
		RealVsStub:     map[string]string{"real": "all of /repo, Go runtime, tmpfs file bytes", "simulated": "I/O fault layer (EIO, torn writes, failing Sync) behind the H3/H4 seams, truncation of the closed file", "stub": "none"},
		UnsteeredShare: 0.2,
		MaxShrinkExecs: 120,
		KeepLastFault:  true,
		MemLimitMiB:    4096,
		HangSeconds:    60,
	})
}

// decodedDigest renders what the independent decoder recovers from a closed
// file - per path: kind, shape, stored element bytes, variable-length elements,
// attributes - as one comparable string ("" when the file is unreadable).
func decodedDigest(path string) string {
	if path == "" {
		return ""
	}
	b, err := os.ReadFile(path)
	if err != nil || len(b) == 0 {
		return ""
	}
	r := specdec.Decode(b)
	type row struct{ p, v string }
	var rows []row
	seen := map[string]bool{}
	r.Walk(func(p string, o *specdec.Object, l *specdec.Link) {
		if seen[p] || o == nil {
			return
		}
		seen[p] = true
		h := func(x []byte) uint64 { return uint64(specdec.Lookup3(x, 0))<<32 | uint64(specdec.Lookup3(x, 7)) }
		v := fmt.Sprintf("%s|%v|%d:%x|%s|vl%d", o.Kind, o.Dims, len(o.Data), h(o.Data), o.DataErr, len(o.VLen))
		for _, e := range o.VLen {
			v += fmt.Sprintf(",%d:%x", len(e), h(e))
		}
		for _, a := range o.Attrs {
			v += fmt.Sprintf("|@%s=%d:%x", a.Name, len(a.Data), h(a.Data))
		}
		rows = append(rows, row{p, v})
	})
	sort.Slice(rows, func(i, j int) bool { return rows[i].p < rows[j].p })
	var sb strings.Builder
	for _, x := range rows {
		sb.WriteString(x.p + "=" + x.v + "\n")
	}
	return sb.String()
}
