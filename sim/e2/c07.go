package e2

import (
	"encoding/binary"
	"encoding/hex"
	"fmt"
	"os"
	"path/filepath"
	"runtime"
	"runtime/debug"
	"strings"

	"github.com/scigolib/hdf5/verifsim/disk"
	"github.com/scigolib/hdf5/verifsim/e1"
	"github.com/scigolib/hdf5/verifsim/harness"
	"github.com/scigolib/hdf5/verifsim/rng"
	"github.com/scigolib/hdf5/verifsim/specdec"
	"github.com/scigolib/hdf5/verifsim/trace"
)

// metadata extent kinds: size/count/address fields live here
func isMeta(kind string) bool {
	switch kind {
	case "contiguous-data", "chunk", "local-heap-data", "fhdb":
		return false
	}
	return true
}

func genC07(r *rng.R, tier string, steer bool, idx int) *trace.Trace {
	var t *trace.Trace
	if r.Chance(0.6) {
		files := Corpus(1 << 20)
		if tier == "thorough" {
			files = Corpus(4 << 20)
		}
		if lg := linkGroupCorpus(files); len(lg) > 0 && r.Chance(0.3) {
			files = lg // reference files with new-style groups: the link-graph rewiring applies
		}
		base := rng.Pick(r, files)
		for tries := 0; tries < 20 && HasHugeDataset(base); tries++ {
			base = rng.Pick(r, files)
		}
		t = &trace.Trace{Config: trace.Config{SB: 2, Base: base}}
	} else {
		for {
			t = e1.GenForFaults(r, tier, true)
			if len(t.Ops) <= 30 {
				break
			}
		}
	}
	t.Config.Mode = "corrupt"
	n := 150
	if tier == "thorough" {
		n = 600
	}
	t.Config.Extra = []string{fmt.Sprint(n), fmt.Sprint(r.Uint64())}
	return t
}

// genMutations derives the mutation list of a workload from its seed and the
// decoder's extent map: position-directed boundary values in metadata
// structures, self-referential addresses, random multi-byte mutations and
// truncations.
func genMutations(file []byte, n int, seed uint64) []trace.Fault {
	r := rng.New(seed, "c07-mutations")
	size := int64(len(file))
	dec := specdec.Decode(file)
	var meta []specdec.Extent
	for _, e := range dec.Extents {
		if isMeta(e.Kind) && e.End > e.Start && int64(e.End) <= size {
			meta = append(meta, e)
		}
	}
	le := func(v uint64, w int) string {
		b := make([]byte, 8)
		binary.LittleEndian.PutUint64(b, v)
		return hex.EncodeToString(b[:w])
	}
	var out []trace.Fault
	// structural mutation: turn version-1 B-tree nodes into ladders (shared
	// children over many levels - a DAG, not a cycle)
	starts := map[uint64]bool{}
	for _, e := range dec.Extents {
		starts[e.Start] = true
	}
	for _, e := range dec.Extents {
		if (e.Kind != "btree-v1-chunk" && e.Kind != "btree-v1-group") || int64(e.End) > size || e.End-e.Start < 40 || len(out) >= 4 {
			continue
		}
		node := file[e.Start:e.End]
		if string(node[:4]) != "TREE" {
			continue
		}
		// child pointers: 8-byte fields after the 24-byte node header that hold
		// the address of another structure of the file
		var ptrs []byte
		for at := 24; at+8 <= len(node); at += 4 {
			if starts[binary.LittleEndian.Uint64(node[at:])] && binary.LittleEndian.Uint64(node[at:]) != 0 {
				ptrs = append(ptrs, byte(at), byte(at>>8))
				at += 4
			}
		}
		if len(ptrs) < 4 { // at least two children, or no blow-up
			continue
		}
		out = append(out, trace.Fault{Kind: "btree_ladder", Off: int64(e.Start), Len: int64(e.End - e.Start), Keep: rng.Pick(r, []int{12, 40, 60}), Hex: hex.EncodeToString(ptrs)})
	}
	// structural mutation: rewire the link graph of new-style groups (link
	// messages in a version 2 object header) into hard-link cycles, with and
	// without a soft link in front, checksum kept valid
	out = append(out, linkRewires(file, dec, r)...)
	// extent sweeps: for a few seeded metadata structures, every aligned 8-byte
	// and 4-byte field position of the header part gets the extreme values a
	// length/address check must survive (all ones, the sign bit, just below 2^64)
	sweeps := 1 + n/200
	for k := 0; k < sweeps && len(meta) > 0; k++ {
		e := meta[r.Intn(len(meta))]
		span := int64(e.End - e.Start)
		if span > 96 {
			span = 96
		}
		for at := int64(0); at+4 <= span && len(out) < n*2/3; at += 4 {
			off := int64(e.Start) + at
			if at%8 == 0 && at+8 <= span && off+8 <= size {
				for _, v := range []uint64{^uint64(0), 1 << 63, ^uint64(0) - 15} {
					out = append(out, trace.Fault{Kind: "set_bytes", Off: off, Hex: le(v, 8)})
				}
			}
			if off+4 <= size {
				out = append(out, trace.Fault{Kind: "set_bytes", Off: off, Hex: le(0xFFFFFFFF, 4)})
			}
		}
	}
	for len(out) < n {
		k := r.Intn(10)
		switch {
		case k < 6 && len(meta) > 0:
			e := meta[r.Intn(len(meta))]
			span := int64(e.End - e.Start)
			if span > 96 {
				span = 96 // header part: where the size/count/address/version fields are
			}
			off := int64(e.Start) + int64(r.Intn(int(span)))
			w := rng.Pick(r, []int{1, 1, 2, 4, 8})
			if off+int64(w) > size {
				w = 1
			}
			var v uint64
			switch r.Intn(9) {
			case 0:
				v = 0
			case 1:
				v = 1
			case 2:
				v = 0x7F
			case 3:
				v = ^uint64(0)
			case 4:
				v = uint64(size)
			case 5:
				v = uint64(size) - 1
			case 6:
				v = uint64(size) + 1
			case 7:
				v = e.Start // self-referential address (continuation, child, link cycles)
			default:
				// existing value +-1
				cur := uint64(0)
				for i := 0; i < w; i++ {
					cur |= uint64(file[off+int64(i)]) << (8 * uint(i))
				}
				if r.Chance(0.5) {
					v = cur + 1
				} else {
					v = cur - 1
				}
			}
			out = append(out, trace.Fault{Kind: "set_bytes", Off: off, Hex: le(v, w)})
		case k < 9:
			w := r.Range(1, 8)
			off := int64(r.Intn(int(size)))
			if off+int64(w) > size {
				w = int(size - off)
			}
			b := make([]byte, w)
			for i := range b {
				b[i] = byte(r.Uint64())
			}
			out = append(out, trace.Fault{Kind: "set_bytes", Off: off, Hex: hex.EncodeToString(b)})
		default:
			out = append(out, trace.Fault{Kind: "truncate", Len: int64(r.Intn(int(size)))})
		}
	}
	return out
}

func execC07(t *trace.Trace, dir string) *harness.RunResult {
	res := &harness.RunResult{Probes: map[string]int{}, Fired: map[string]int{}, Narrow: map[string]*trace.Trace{}}
	base, err := produceBase(t, dir)
	if err != nil {
		res.Infra = "cannot produce base file: " + err.Error()
		return res
	}
	defer os.Remove(base)
	orig, err := os.ReadFile(base)
	if err != nil || len(orig) == 0 {
		res.Probes["empty-base"]++
		return res
	}
	muts := t.Faults
	if len(muts) == 0 {
		n, seed := 150, uint64(1)
		if len(t.Config.Extra) >= 2 {
			fmt.Sscan(t.Config.Extra[0], &n)
			fmt.Sscan(t.Config.Extra[1], &seed)
		}
		muts = genMutations(orig, n, seed)
	}
	work := filepath.Join(dir, "mut.h5")
	defer os.Remove(work)
	size := int64(len(orig))
	seen := map[string]bool{}
	violate := func(oracle, class, detail string, f trace.Fault) {
		v := trace.Violation{Property: "C07", Oracle: oracle, Class: class, Detail: detail}
		if seen[v.Signature()] {
			return
		}
		seen[v.Signature()] = true
		res.Violations = append(res.Violations, v)
		if len(t.Faults) == 0 {
			nt := t.Clone()
			nt.Faults = []trace.Fault{f}
			res.Narrow[v.Signature()] = nt
		}
	}
	buf := make([]byte, len(orig))
	var ms runtime.MemStats
	pastSig := 0
	skip, ex := harness.TakeSkipSub(), 0
	for _, f := range muts {
		copy(buf, orig)
		cur, ok := applyMutation(buf[:len(orig)], f)
		if !ok {
			continue
		}
		ex++
		if ex <= skip {
			continue // executed by the previous worker segment (it died in sub-run 'skip')
		}
		if err := os.WriteFile(work, cur, 0o644); err != nil {
			res.Infra = err.Error()
			return res
		}
		harness.AnnounceFault(f)
		sim := disk.NewSim()
		sim.ReadBudget = 100000 + 64*len(cur)
		disk.Install(sim)
		pool := &disk.Pool{Mode: "plain"}
		disk.InstallPool(pool)
		runtime.ReadMemStats(&ms)
		before := ms.TotalAlloc
		d := e1.DumpFile(work, e1.DumpOpts{Extra: true})
		runtime.ReadMemStats(&ms)
		alloc := ms.TotalAlloc - before
		disk.Install(nil)
		disk.InstallPool(nil)
		if alloc > 32<<20 {
			// give large garbage back before the next altered file, so that memory
			// used by earlier runs cannot push a later one over the process limit
			d = shrinkDump(d)
			debug.FreeOSMemory()
		}
		res.SubRuns++
		res.Fired[f.Kind]++
		res.IOSteps += sim.Step
		if d.OpenErr == "" || !strings.Contains(d.OpenErr, "not an HDF5 file") {
			pastSig++
		}
		for _, p := range d.Panics() {
			violate("panic", e1.ErrClass(p), fmt.Sprintf("%s %+v: %s", f.Kind, f, p), f)
		}
		if sim.BudgetHit {
			violate("non-termination", "read-budget-exceeded", fmt.Sprintf("%+v: more than %d ReadAt calls on a %d-byte file", f, sim.ReadBudget, len(cur)), f)
		}
		// 1100 is deflate's worst-case expansion: a valid compressed file cannot trip this
		if limit := uint64(256<<20) + 1100*uint64(len(cur)); alloc > limit {
			violate("excess-allocation", "bytes-allocated", fmt.Sprintf("%+v: %d bytes allocated reading a %d-byte file (limit %d)", f, alloc, len(cur), limit), f)
		}
	}
	res.NonTrivial = pastSig > 0
	src := "lib"
	if t.Config.Base != "" {
		src = t.Config.Base
	}
	res.Fingerprint = fmt.Sprintf("%s|%d", src, size)
	return res
}

func init() {
	harness.Register(&harness.Prop{
		ID: "C07", Engine: "E2", Level: "exploration", Gen: genC07, Exec: execC07,
		Runs:      map[string]int{"quick": 2000, "thorough": 60000},
		Rule:      "storage-corruption fault injection: per workload (a bundled reference file <= 1 MiB quick / 4 MiB thorough, or a file written by a simulated E1 history) 150 (quick) / 600 (thorough) seeded alterations of the stored bytes are applied one at a time - boundary values (0, 1, 0x7F, all-ones, filesize, filesize+-1, value+-1, the structure's own address) written over 1/2/4/8-byte positions in the first 96 bytes of every metadata structure located by the independent decoder, random 1-8-byte mutations, truncations, version-1 B-tree nodes turned into shared-child ladders, and (30% of the reference-file workloads are steered to files with new-style groups) link-graph rewirings of version-2 object headers: a hard link message pointed back at its own group or at the root group, alone or with the group's first link message turned into a soft link of equal size, stored checksum recomputed - and the altered file is opened and everything reachable is read (Walk, Info, Read, ReadStrings, ReadCompound, Attributes+ReadValue, ReadSlice of a centre block, a chunk-iterator pass); oracle: no panic, no process death (address-space limit 4 GiB, hang watchdog 30 s), at most 1e5+64*size ReadAt calls, at most 256 MiB+1100*size bytes allocated; evaluations counts workloads plus altered files; non-trivial = at least one altered file got past the signature check; distinct by (base file identity, size)",
		Technique: "deterministic simulation with stored-byte fault injection (seeded, decoder-directed) and isolated crash-tolerant workers",
		Assumptions: []string{"returning an error is always acceptable", "inputs larger than 4 MiB and multi-field corruptions beyond 8 bytes are not explored",
			"reference files that legitimately declare datasets above 64 MiB are not used as base files"},
		RealVsStub:     map[string]string{"real": "all of /repo's reader, Go runtime", "simulated": "stored-byte corruption, read-step budget behind the H4 seam, address-space limit and hang watchdog around the worker process", "stub": "none"},
		KeepLastFault:  true,
		MemLimitMiB:    4096,
		HangSeconds:    30,
		MaxShrinkExecs: 40,
	})
}

// applyMutation returns the file image with one mutation applied (the result
// may alias buf, which must hold a copy of the original), or false when the
// mutation does not fit the file.
func applyMutation(buf []byte, f trace.Fault) ([]byte, bool) {
	size := int64(len(buf))
	switch f.Kind {
	case "set_bytes":
		b, _ := hex.DecodeString(f.Hex)
		if f.Off < 0 || f.Off+int64(len(b)) > size {
			return nil, false
		}
		copy(buf[f.Off:], b)
		return buf, true
	case "truncate":
		if f.Len < 0 || f.Len > size {
			return nil, false
		}
		return buf[:f.Len], true
	case "btree_ladder":
		// A version-1 B-tree node at Off (Len bytes) becomes the top of a ladder
		// of Keep levels: the original node is moved to the end of the file, Keep-1
		// copies follow it, each one level higher with EVERY child pointer naming
		// the copy below, and the node at Off points at the topmost copy. The file
		// stays small (Keep*Len bytes more) but a reader that follows every path
		// visits 2^Keep nodes.
		ptrs, _ := hex.DecodeString(f.Hex)
		if f.Off < 0 || f.Len < 24 || f.Off+f.Len > size || f.Keep < 1 || len(ptrs) < 2 || len(ptrs)%2 != 0 {
			return nil, false
		}
		node := append([]byte(nil), buf[f.Off:f.Off+f.Len]...)
		base := (size + 7) &^ 7
		out := append([]byte(nil), buf...)
		for int64(len(out)) < base {
			out = append(out, 0)
		}
		level := int(node[5])
		mk := func(lv int, child int64) []byte {
			n := append([]byte(nil), node...)
			if lv > 255 {
				lv = 255
			}
			n[5] = byte(lv)
			for k := 0; k+1 < len(ptrs); k += 2 {
				at := int(ptrs[k]) | int(ptrs[k+1])<<8
				if at+8 <= len(n) {
					binary.LittleEndian.PutUint64(n[at:], uint64(child))
				}
			}
			return n
		}
		out = append(out, node...) // level 0 of the ladder: the original node
		prev := base
		for i := 1; i < f.Keep; i++ {
			out = append(out, mk(level+i, prev)...)
			prev = base + int64(i)*f.Len
		}
		copy(out[f.Off:], mk(level+f.Keep, prev))
		return out, true
	}
	return nil, false
}

// Materialize writes the (possibly altered) input file a C07/C17-truncation
// trace describes to out: the base file with the trace's byte faults applied.
func Materialize(t *trace.Trace, dir, out string) error {
	base, err := produceBase(t, dir)
	if err != nil {
		return err
	}
	defer os.Remove(base)
	b, err := os.ReadFile(base)
	if err != nil {
		return err
	}
	for _, f := range t.Faults {
		if nb, ok := applyMutation(b, f); ok {
			b = nb
		}
	}
	return os.WriteFile(out, b, 0o644)
}

// shrinkDump drops the bulk values of a dump (only panics are looked at afterwards).
func shrinkDump(d *e1.Dump) *e1.Dump {
	for i := range d.Objs {
		d.Objs[i].F64, d.Objs[i].Strs, d.Objs[i].Comp = nil, nil, nil
	}
	return d
}

// linkRewires builds whole-header replacements (as set_bytes faults, so replay
// needs nothing new) for up to three version 2 object headers that hold link
// messages: a hard link is pointed back at the group itself (or at the root
// group), and in a second variant the group's first link message is also
// turned into a soft link of the same encoded size. The stored checksum is
// recomputed, so only the cycle guard stands between Open and unbounded
// recursion.
func linkRewires(file []byte, dec *specdec.Result, r *rng.R) []trace.Fault {
	type lmsg struct{ body, size int } // offsets relative to the header start
	var out []trace.Fault
	var root uint64
	rootSet := false
	for _, e := range dec.Extents {
		if e.Kind == "ohdr-v2" && !rootSet {
			root, rootSet = e.Start, true // the decoder visits the root group first
		}
	}
	groups := 0
	for _, e := range dec.Extents {
		if e.Kind != "ohdr-v2" || e.End > uint64(len(file)) || e.End-e.Start < 16 || groups >= 3 {
			continue
		}
		h := file[e.Start:e.End]
		if string(h[:4]) != "OHDR" || h[4] != 2 {
			continue
		}
		fl := h[5]
		pos := 6
		if fl&0x20 != 0 {
			pos += 16
		}
		if fl&0x10 != 0 {
			pos += 4
		}
		w := 1 << (fl & 3)
		if pos+w > len(h) {
			continue
		}
		var csize int
		for i := 0; i < w; i++ {
			csize |= int(h[pos+i]) << (8 * uint(i))
		}
		pos += w
		end := pos + csize
		if csize <= 0 || end+4 > len(h) {
			continue
		}
		var links []lmsg
		for at := pos; at+4 <= end; {
			typ, sz := int(h[at]), int(h[at+1])|int(h[at+2])<<8
			at += 4
			if fl&0x04 != 0 {
				at += 2
			}
			if at+sz > end {
				break
			}
			if typ == 6 {
				links = append(links, lmsg{at, sz})
			}
			at += sz
		}
		// locate the 8-byte address of every hard link message
		hardAddr := func(m lmsg) (addrAt int, typeAt int, ok bool) {
			b := h[m.body : m.body+m.size]
			if len(b) < 4 || b[0] != 1 {
				return 0, 0, false
			}
			lf := b[1]
			p := 2
			typeAt = -1
			if lf&0x08 != 0 {
				if b[p] != 0 {
					return 0, 0, false
				}
				typeAt = m.body + p
				p++
			}
			if lf&0x04 != 0 {
				p += 8
			}
			if lf&0x10 != 0 {
				p++
			}
			nw := 1 << (lf & 3)
			if p+nw > len(b) {
				return 0, 0, false
			}
			var nl int
			for i := 0; i < nw && i < 4; i++ {
				nl |= int(b[p+i]) << (8 * uint(i))
			}
			p += nw + nl
			if p+8 != len(b) {
				return 0, 0, false
			}
			return m.body + p, typeAt, true
		}
		var hard []lmsg
		for _, m := range links {
			if _, _, ok := hardAddr(m); ok {
				hard = append(hard, m)
			}
		}
		if len(hard) == 0 {
			continue
		}
		groups++
		finish := func(n []byte) trace.Fault {
			binary.LittleEndian.PutUint32(n[end:], specdec.Lookup3(n[:end], 0))
			return trace.Fault{Kind: "set_bytes", Off: int64(e.Start), Hex: hex.EncodeToString(n[:end+4])}
		}
		targets := []uint64{e.Start}
		if rootSet && root != e.Start {
			targets = append(targets, root)
		}
		for _, tgt := range targets {
			// variant 1: the last hard link points back (self-cycle / cycle through the root)
			n := append([]byte(nil), h...)
			a, _, _ := hardAddr(hard[len(hard)-1])
			binary.LittleEndian.PutUint64(n[a:], tgt)
			out = append(out, finish(n))
			// variant 2: additionally the first link message becomes a soft link
			if len(hard) >= 2 && hard[0] == links[0] {
				n = append([]byte(nil), h...)
				binary.LittleEndian.PutUint64(n[a:], tgt)
				m := hard[0]
				fa, ta, _ := hardAddr(m)
				if ta >= 0 {
					n[ta] = 1
					copy(n[fa:], []byte{6, 0, '/', 'n', 'o', 'p', 'e', 's'})
				} else {
					// no link-type byte yet: insert one after the flags, the address
					// field shrinks to a 2-byte length plus a 5-byte path
					b := append([]byte(nil), n[m.body:m.body+m.size]...)
					nb := append([]byte{b[0], b[1] | 0x08, 1}, b[2:len(b)-8]...)
					nb = append(nb, 5, 0, '/', 'n', 'o', 'p', 'e')
					copy(n[m.body:], nb)
				}
				out = append(out, finish(n))
			}
		}
	}
	return out
}

var linkGroupCache map[string]bool

// linkGroupCorpus filters files down to those in which linkRewires finds a
// group to rewire (decided once per process by the independent decoder).
func linkGroupCorpus(files []string) []string {
	if linkGroupCache == nil {
		linkGroupCache = map[string]bool{}
		for _, f := range Corpus(4 << 20) {
			b, err := os.ReadFile(filepath.Join(corpusRoot, f))
			if err != nil || HasHugeDataset(f) {
				continue
			}
			if len(linkRewires(b, specdec.Decode(b), rng.New(1, "probe"))) > 0 {
				linkGroupCache[f] = true
			}
		}
	}
	var out []string
	for _, f := range files {
		if linkGroupCache[f] {
			out = append(out, f)
		}
	}
	return out
}
