package e2

import (
	"bytes"
	"fmt"
	"sort"
	"strings"

	"github.com/scigolib/hdf5/internal/core"
	"github.com/scigolib/hdf5/internal/writer"
	"github.com/scigolib/hdf5/verifsim/e1"
	"github.com/scigolib/hdf5/verifsim/harness"
	"github.com/scigolib/hdf5/verifsim/rng"
	"github.com/scigolib/hdf5/verifsim/trace"
)

// C08: filter pipelines are lossless, self-compatible and detect corruption.
//
// Three parts per run:
//  (i)   end to end through the public API: a chunked, filtered dataset is
//        written to the simulated disk, restarted and read (E1 executor);
//  (ii)  at package level: writer.FilterPipeline.Apply on a seeded payload, then
//        Remove on the same bytes (lossless), the pipeline message through
//        core.ParseFilterPipelineMessage (same pipeline description) and
//        core's ApplyFilters on the same bytes (same container format);
//  (iii) fault injection on the stored chunk: for Fletcher-32-protected chunks
//        EVERY single byte position is altered (3 values each) plus seeded
//        multi-byte corruptions, and decoding must report an error.

func genC08(r *rng.R, tier string, steer bool, idx int) *trace.Trace {
	t := &trace.Trace{Config: trace.Config{SB: 2, Mode: "filters"}}
	// pipeline: any order of up to 4 of {deflate:N, shuffle:E, fletcher32, lzf}
	n := r.Range(1, 4)
	var fs []string
	for i := 0; i < n; i++ {
		switch r.Intn(4) {
		case 0:
			fs = append(fs, fmt.Sprintf("gzip:%d", r.Range(0, 9)))
		case 1:
			fs = append(fs, fmt.Sprintf("shuffle:%d", rng.Pick(r, []int{1, 2, 3, 4, 8, 16})))
		case 2:
			fs = append(fs, "fletcher32")
		case 3:
			fs = append(fs, "lzf")
		}
	}
	size := rng.Pick(r, []int{0, 1, 2, 3, 7, 8, 9, 63, 64, 65, 255, 256, 1000, 4096, 4097, 65536})
	if tier == "thorough" && r.Chance(0.1) {
		size = rng.Pick(r, []int{262144, 1 << 20})
	}
	mode := rng.Pick(r, []string{"rand", "zero", "ramp", "repeat", "rand"})
	if r.Chance(0.002) {
		// extreme compression ratios: megabytes of one byte value (deflate stores
		// them in about a thousandth of their size)
		size = rng.Pick(r, []int{1 << 20, 2 << 20, 4<<20 + 3})
		mode = "zero"
	}
	t.Ops = []trace.Op{{Op: "filter_payload", Filters: fs, Len: size, Seed: r.Uint64() % 100000, Mode: mode}}
	// (i) a public-API dataset with the filters the options allow
	if r.Chance(0.5) {
		var api []string
		if r.Chance(0.5) {
			api = append(api, "shuffle")
		}
		if r.Chance(0.7) {
			api = append(api, fmt.Sprintf("gzip:%d", r.Range(0, 9)))
		}
		if r.Chance(0.4) {
			api = append(api, "fletcher32")
		}
		if len(api) > 0 {
			dt := rng.Pick(r, []string{"Float64", "Int32", "Int64", "Float32"})
			dims := []uint64{uint64(r.Range(1, 40))}
			chunk := []uint64{uint64(r.Range(1, int(dims[0])))}
			t.Ops = append(t.Ops, trace.Op{Op: "create_dataset", Path: "/f", DType: dt, Dims: dims, Chunk: chunk, Filters: api},
				trace.Op{Op: "write", Path: "/f", Data: &trace.Data{Gen: rng.Pick(r, []string{"ramp", "rand", "zero", "const"}), Seed: r.Uint64() % 1000}})
		}
	}
	return t
}

func payload(n int, seed uint64, mode string) []byte {
	b := make([]byte, n)
	x := seed*2654435761 + 1
	for i := range b {
		switch mode {
		case "zero":
		case "ramp":
			b[i] = byte(i)
		case "repeat":
			b[i] = "abcabcabd"[i%9]
		default:
			x = x*6364136223846793005 + 1442695040888963407
			b[i] = byte(x >> 33)
		}
	}
	return b
}

func buildPipeline(fs []string) (*writer.FilterPipeline, *core.FilterPipelineMessage) {
	fp := writer.NewFilterPipeline()
	msg := &core.FilterPipelineMessage{Version: 2}
	for _, f := range fs {
		var wf writer.Filter
		switch {
		case strings.HasPrefix(f, "gzip:"):
			var lv int
			fmt.Sscanf(f, "gzip:%d", &lv)
			wf = writer.NewGZIPFilter(lv)
		case strings.HasPrefix(f, "shuffle:"):
			var es int
			fmt.Sscanf(f, "shuffle:%d", &es)
			wf = writer.NewShuffleFilter(uint32(es))
		case f == "fletcher32":
			wf = writer.NewFletcher32Filter()
		case f == "lzf":
			wf = writer.NewLZFFilter()
		}
		if wf == nil {
			continue
		}
		fp.AddFilter(wf)
		flags, cd := wf.Encode()
		msg.Filters = append(msg.Filters, core.Filter{ID: core.FilterID(wf.ID()), Flags: flags, NumClientData: uint16(len(cd)), ClientData: cd, Name: wf.Name()})
	}
	msg.NumFilters = uint8(len(msg.Filters))
	return fp, msg
}

func pipelineClass(fs []string) string {
	var ks []string
	for _, f := range fs {
		if i := strings.Index(f, ":"); i > 0 {
			f = f[:i]
		}
		ks = append(ks, f)
	}
	return strings.Join(ks, "+")
}

func execC08(t *trace.Trace, dir string) *harness.RunResult {
	res := &harness.RunResult{Probes: map[string]int{}, Fired: map[string]int{}, Narrow: map[string]*trace.Trace{}}
	viol := func(oracle, class, detail string) {
		res.Violations = append(res.Violations, trace.Violation{Property: "C08", Oracle: oracle, Class: class, Detail: detail})
	}
	if len(t.Ops) == 0 || t.Ops[0].Op != "filter_payload" {
		res.Infra = "bad C08 trace"
		return res
	}
	op := &t.Ops[0]
	data := payload(op.Len, op.Seed, op.Mode)
	fp, msg := buildPipeline(op.Filters)
	pc := pipelineClass(op.Filters)
	var enc []byte
	var err error
	pan := guardStr(func() { enc, err = fp.Apply(append([]byte(nil), data...)) })
	switch {
	case pan != "":
		viol("panic", "apply:"+e1.ErrClass(pan), pan)
	case err != nil:
		// the writer may refuse a payload (then nothing is stored): not a violation
		res.Probes["apply-refused"]++
	default:
		res.NonTrivial = len(data) >= 2
		// lossless: writer-side Remove
		var dec []byte
		pan = guardStr(func() { dec, err = fp.Remove(append([]byte(nil), enc...)) })
		if pan != "" {
			viol("panic", "remove:"+e1.ErrClass(pan), pan)
		} else if err != nil {
			viol("lossless", "writer-remove-error:"+e1.ErrClass(err.Error()), fmt.Sprintf("Remove(Apply(%d bytes)) failed: %v", len(data), err))
		} else if !bytes.Equal(dec, data) {
			viol("lossless", "writer-remove-differs", fmt.Sprintf("Remove(Apply(x)) != x for %d bytes (%s)", len(data), op.Mode))
		} else {
			res.Probes["writer-roundtrip-ok"]++
		}
		// same container format: reader-side decode of the same bytes
		var rdec []byte
		pan = guardStr(func() { rdec, err = msg.ApplyFilters(append([]byte(nil), enc...)) })
		if pan != "" {
			viol("panic", "reader-apply:"+e1.ErrClass(pan), pan)
		} else if err != nil {
			viol("self-compatible", "reader-rejects-writer-bytes:"+e1.ErrClass(err.Error()), fmt.Sprintf("reader cannot decode what the writer encoded (%s, %d bytes payload): %v", pc, len(data), err))
		} else if !bytes.Equal(rdec, data) {
			viol("self-compatible", "reader-decodes-differently", fmt.Sprintf("reader decodes %d bytes that differ from the payload", len(rdec)))
		} else {
			res.Probes["reader-decodes-writer-bytes"]++
		}
		// same pipeline description: the message the writer stores, through the reader's parser
		var pm []byte
		pan = guardStr(func() { pm, err = fp.EncodePipelineMessage() })
		if pan == "" && err == nil {
			var parsed *core.FilterPipelineMessage
			pan = guardStr(func() { parsed, err = core.ParseFilterPipelineMessage(pm) })
			if pan != "" {
				viol("panic", "parse-message:"+e1.ErrClass(pan), pan)
			} else if err != nil {
				viol("self-compatible", "pipeline-message-rejected", err.Error())
			} else {
				ok := len(parsed.Filters) == len(msg.Filters)
				for i := 0; ok && i < len(msg.Filters); i++ {
					if parsed.Filters[i].ID != msg.Filters[i].ID || fmt.Sprint(parsed.Filters[i].ClientData) != fmt.Sprint(msg.Filters[i].ClientData) {
						ok = false
					}
				}
				if !ok {
					viol("self-compatible", "pipeline-message-decoded-differently", fmt.Sprintf("writer stores %s; reader's parser sees %d filters with other ids/parameters", pc, len(parsed.Filters)))
				} else {
					res.Probes["pipeline-message-ok"]++
				}
			}
		}
		// (iii) corruption of a Fletcher-32-protected chunk: only when the checksum
		// is the outermost (last applied) filter is the stored chunk itself covered
		if len(op.Filters) > 0 && op.Filters[len(op.Filters)-1] == "fletcher32" && len(enc) > 0 && len(enc) <= 4096+64 {
			exhaustive := 0
			readerAccepted := false
			for pos := 0; pos < len(enc); pos++ {
				for _, x := range []byte{0x01, 0x80, 0xFF} {
					c := append([]byte(nil), enc...)
					c[pos] ^= x
					res.SubRuns++
					res.Fired["chunk_byte_flip"]++
					exhaustive++
					var e1r, e2r error
					pan = guardStr(func() { _, e1r = msg.ApplyFilters(append([]byte(nil), c...)) })
					if pan != "" {
						viol("panic", "reader-apply-corrupt:"+e1.ErrClass(pan), pan)
						goto done
					}
					if e1r == nil && !readerAccepted {
						// recorded once; the sweep goes on so that the writer side is still checked at every position
						readerAccepted = true
						viol("corruption-detected", "reader-accepts-corrupt-chunk", fmt.Sprintf("byte %d of a %d-byte fletcher32 chunk xor %#x: reader returns data", pos, len(enc), x))
					}
					pan = guardStr(func() { _, e2r = fp.Remove(append([]byte(nil), c...)) })
					if pan != "" {
						viol("panic", "writer-remove-corrupt:"+e1.ErrClass(pan), pan)
						goto done
					}
					if e2r == nil {
						viol("corruption-detected", "writer-remove-accepts-corrupt-chunk", fmt.Sprintf("byte %d xor %#x", pos, x))
						goto done
					}
				}
			}
			res.Probes["fletcher32-single-byte-sweeps"]++
		}
	}
done:
	// (i) end to end through the public API
	if len(t.Ops) > 1 {
		et := t.Clone()
		et.Ops = et.Ops[1:]
		out := e1.RunClassified(et, e1.Options{Dir: dir, Property: "C08"})
		res.SubRuns++
		res.IOSteps += out.IOSteps
		res.Restarts += out.Restarts
		res.Violations = append(res.Violations, out.Violations...)
		for k, v := range out.Probes {
			if strings.HasPrefix(k, "values-ok") && v > 0 {
				res.Probes["end-to-end-read-ok"]++
				res.NonTrivial = true
			}
		}
	}
	ks := append([]string(nil), op.Filters...)
	for i := range ks {
		if j := strings.Index(ks[i], ":"); j > 0 && strings.HasPrefix(ks[i], "gzip") {
			ks[i] = "gzip"
		}
	}
	sizeClass := "big"
	switch {
	case op.Len == 0:
		sizeClass = "empty"
	case op.Len < 8:
		sizeClass = "tiny"
	case op.Len <= 4096:
		sizeClass = "small"
	}
	_ = sort.Strings
	res.Fingerprint = fmt.Sprintf("%s|%s|%s|api=%v", strings.Join(ks, "+"), sizeClass, op.Mode, len(t.Ops) > 1)
	return res
}

func guardStr(f func()) (pan string) {
	defer func() {
		if r := recover(); r != nil {
			pan = fmt.Sprint(r) + " @" + e1.PanicSite()
		}
	}()
	f()
	return ""
}

func init() {
	harness.Register(&harness.Prop{
		ID: "C08", Engine: "E2", Level: "exploration", Gen: genC08, Exec: execC08,
		Runs:      map[string]int{"quick": 60000, "thorough": 1800000},
		Rule:      "per run one seeded pipeline (any order of up to 4 of deflate level 0-9, shuffle with element size 1-16, Fletcher-32, LZF) and one seeded payload (sizes 0,1,2,3,7,8,9,63..65,255,256,1000,4096,4097,64 KiB, thorough also 256 KiB/1 MiB; random, zero, ramp, repetitive): writer Apply then writer Remove (lossless), reader ApplyFilters on the same bytes (same container format), the stored pipeline message through the reader's parser (same description); for pipelines whose outermost filter is Fletcher-32 and chunks <= 4 KiB EVERY single byte position of the stored chunk is altered with 3 values and decoding must fail on both sides (fault enumeration per chunk); in half of the runs a filtered chunked dataset additionally goes end to end through the public API over the simulated disk with a restart; non-trivial = payload >= 2 bytes and a non-empty pipeline that encoded; distinct by (pipeline kinds in order, size class, payload class, api part)",
		Technique: "deterministic simulation: writer/reader differential at package level, stored-chunk byte-flip enumeration, end-to-end restart through the simulated disk",
		Assumptions: []string{"payload generation at package level is input generation (the simulation adds the stored-byte faults and the restart path)",
			"single-byte corruption is enumerated only when Fletcher-32 is the outermost filter, because only then does the checksum cover the stored bytes themselves"},
		RealVsStub: map[string]string{"real": "internal/writer filters and pipeline, internal/core filter pipeline parser and decoders, public dataset API", "simulated": "stored-chunk byte faults, disk layer, restart", "stub": "none"},
	})
}
