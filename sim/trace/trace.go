// Package trace defines the explicit, replayable trace format executed by all
// engines. Workers execute traces, not seeds; a replay file is a trace plus the
// expected violation signature.
package trace

import (
	"encoding/json"
	"os"
)

// Config is the per-run (swarm) configuration.
type Config struct {
	SB        int      `json:"sb"`                   // superblock version 0, 2, 3
	NoRebal   bool     `json:"no_rebal,omitempty"`   // WithBTreeRebalancing(false)
	Lazy      *LazyCfg `json:"lazy,omitempty"`       // WithLazyRebalancing
	Incr      *IncrCfg `json:"incr,omitempty"`       // WithIncrementalRebalancing
	Smart     *Smart   `json:"smart,omitempty"`      // WithSmartRebalancing
	Pool      string   `json:"pool,omitempty"`       // plain|poison|fresh|mixed
	NodeSize  int      `json:"node_size,omitempty"`  // E3 b-tree node size
	BlockSize int      `json:"block_size,omitempty"` // E3 heap direct block size
	MaxObj    int      `json:"max_obj,omitempty"`    // E3 heap max managed object size
	Mode      string   `json:"mode,omitempty"`       // engine-specific sub-mode
	Base      string   `json:"base,omitempty"`       // base file (corpus path) for C07/C10/C17
	Extra     []string `json:"extra,omitempty"`      // engine-specific flags
}

type LazyCfg struct {
	Threshold  float64 `json:"threshold"`
	MaxDelayNs int64   `json:"max_delay_ns"`
	Batch      int     `json:"batch"`
}

type IncrCfg struct {
	BudgetNs   int64 `json:"budget_ns"`
	IntervalNs int64 `json:"interval_ns"`
}

type Smart struct {
	AutoDetect bool     `json:"auto_detect"`
	AutoSwitch bool     `json:"auto_switch"`
	MinFile    uint64   `json:"min_file"`
	Allowed    []string `json:"allowed,omitempty"`
}

// Data describes dataset payload either by generator (+seed) or literal hex.
type Data struct {
	Gen  string `json:"gen,omitempty"` // ramp|rand|extreme|const|zero
	Seed uint64 `json:"seed,omitempty"`
	Hex  string `json:"hex,omitempty"` // literal raw little-endian element bytes
	// For vlen: explicit element lengths (bytes for strings, items for sequences).
	Lens []int `json:"lens,omitempty"`
	// WrongLen makes the Go slice that many elements longer/shorter (C16 bad calls).
	WrongLen int `json:"wrong_len,omitempty"`
	// WrongType passes a Go slice of another element type (C16 bad calls).
	WrongType bool `json:"wrong_type,omitempty"`
}

// Value describes an attribute value.
type Value struct {
	Kind string   `json:"kind"`        // int8..uint64,float32,float64,string,[]int32,[]int64,[]float32,[]float64, or bad kinds
	I    []int64  `json:"i,omitempty"` // integer payload (bit patterns for unsigned)
	F    []uint64 `json:"f,omitempty"` // float payload as bit patterns (float32 in low 32 bits)
	S    string   `json:"s,omitempty"` // string payload
	N    int      `json:"n,omitempty"` // informational length
}

// Op is one operation of a trace.
type Op struct {
	Op      string   `json:"op"`
	Path    string   `json:"path,omitempty"`  // object path (dataset, group, link)
	Name    string   `json:"name,omitempty"`  // attribute name
	DType   string   `json:"dtype,omitempty"` // hdf5.Datatype constant name
	Dims    []uint64 `json:"dims,omitempty"`
	Chunk   []uint64 `json:"chunk,omitempty"`
	MaxDims []uint64 `json:"maxdims,omitempty"`
	Filters []string `json:"filters,omitempty"` // gzip:N, shuffle, fletcher32
	StrSize uint32   `json:"strsize,omitempty"`
	ArrDims []uint64 `json:"arrdims,omitempty"`
	EnumN   []string `json:"enum_names,omitempty"`
	EnumV   []int64  `json:"enum_values,omitempty"`
	OpqTag  string   `json:"opaque_tag,omitempty"`
	OpqSize uint32   `json:"opaque_size,omitempty"`
	Fields  []Field  `json:"fields,omitempty"` // compound
	Data    *Data    `json:"data,omitempty"`
	Value   *Value   `json:"value,omitempty"`
	Target  string   `json:"target,omitempty"` // link target / external object path
	File    string   `json:"file,omitempty"`   // external link file
	Links   []Link   `json:"links,omitempty"`  // dense group / group with links
	Mode    string   `json:"mode,omitempty"`   // restart: open|open_for_write ; delete mode etc.
	N       int      `json:"n,omitempty"`      // repeat count (close_file xN) or generic integer
	Lazy    *LazyCfg `json:"lazy,omitempty"`
	Incr    *IncrCfg `json:"incr,omitempty"`
	Bad     string   `json:"bad,omitempty"`  // why the generator thinks this call is invalid (informational)
	Must    string   `json:"must,omitempty"` // "error" or "ok": outcome the PROPERTY demands (C03/C13 only)
	// E3/E4 fields
	Key   string `json:"key,omitempty"`
	Val   uint64 `json:"val,omitempty"`
	ID    int    `json:"id,omitempty"`
	Len   int    `json:"len,omitempty"`
	Seed  uint64 `json:"seed,omitempty"`
	Task  int    `json:"task,omitempty"`
	DurNs int64  `json:"dur_ns,omitempty"`
}

type Field struct {
	Name   string `json:"name"`
	Kind   string `json:"kind"` // int32,int64,float32,float64,...
	Offset uint32 `json:"offset"`
}

type Link struct {
	Name   string `json:"name"`
	Target string `json:"target"`
}

// Fault is one injected fault.
type Fault struct {
	Kind    string `json:"kind"`               // write_eio|write_torn|read_eio|sync_eio|truncate|set_bytes|rd_read_eio
	AtStep  int    `json:"at_step,omitempty"`  // global I/O step (1-based) at which it fires
	Keep    int    `json:"keep,omitempty"`     // torn write: bytes persisted
	AfterOp int    `json:"after_op,omitempty"` // for closed-file faults: after which op index
	Len     int64  `json:"len,omitempty"`      // truncate length
	Off     int64  `json:"off,omitempty"`
	Hex     string `json:"hex,omitempty"`
}

// Task is an E4 task script.
type Task struct {
	ID     int     `json:"id"`
	Kind   string  `json:"kind,omitempty"`
	Script []Op    `json:"script"`
	Delays []int64 `json:"delays,omitempty"` // consumed at successive yield points; exhausted => 0
}

// Expect is present in replay files only.
type Expect struct {
	Signature   string `json:"signature"`
	Observation string `json:"observation,omitempty"`
}

// Trace is one complete simulated run.
type Trace struct {
	Property string  `json:"property"`
	Engine   string  `json:"engine"`
	Seed     uint64  `json:"seed"` // informational: the seed that generated it
	Steered  bool    `json:"steered,omitempty"`
	Config   Config  `json:"config"`
	Ops      []Op    `json:"ops,omitempty"`
	Faults   []Fault `json:"faults,omitempty"`
	Tasks    []Task  `json:"tasks,omitempty"`
	Expect   *Expect `json:"expect,omitempty"`
}

// Clone returns a deep copy via JSON.
func (t *Trace) Clone() *Trace {
	b, _ := json.Marshal(t)
	var c Trace
	_ = json.Unmarshal(b, &c)
	return &c
}

func (t *Trace) JSON() []byte {
	b, _ := json.MarshalIndent(t, "", " ")
	return b
}

func Load(path string) (*Trace, error) {
	b, err := os.ReadFile(path)
	if err != nil {
		return nil, err
	}
	var t Trace
	if err := json.Unmarshal(b, &t); err != nil {
		return nil, err
	}
	return &t, nil
}

func (t *Trace) Save(path string) error {
	return os.WriteFile(path, t.JSON(), 0o644)
}

// Violation is one oracle failure found while executing a trace.
type Violation struct {
	Property string `json:"property"`
	Oracle   string `json:"oracle"` // which oracle failed
	Class    string `json:"class"`  // stable classification
	Detail   string `json:"detail"` // human-readable, may vary
	OpIndex  int    `json:"op_index"`
}

// Signature is property/oracle/class.
func (v Violation) Signature() string {
	return v.Property + "/" + v.Oracle + "/" + v.Class
}
