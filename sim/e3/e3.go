// Package e3 is the structure simulator: the writable B-tree v2 name index and
// the writable fractal heap (real code from internal/structures) are driven
// through their exported API with the simulated disk standing behind the
// Writer/Allocator/io.ReaderAt interfaces; write-out/load-back ("restart") is
// an operation that may happen anywhere in a history; map and byte-store
// reference models are the oracles.
package e3

import (
	"bytes"
	"encoding/binary"
	"fmt"
	"os"
	"path/filepath"
	"sort"
	"strings"
	"time"

	"github.com/scigolib/hdf5/internal/core"
	"github.com/scigolib/hdf5/internal/structures"
	"github.com/scigolib/hdf5/internal/writer"
	"github.com/scigolib/hdf5/verifsim/disk"
	"github.com/scigolib/hdf5/verifsim/e1"
	"github.com/scigolib/hdf5/verifsim/harness"
	"github.com/scigolib/hdf5/verifsim/rng"
	"github.com/scigolib/hdf5/verifsim/specdec"
	"github.com/scigolib/hdf5/verifsim/trace"
)

func superblock() *core.Superblock {
	return &core.Superblock{Version: 2, OffsetSize: 8, LengthSize: 8, Endianness: binary.LittleEndian}
}

type env struct {
	res  *harness.RunResult
	prop string
	op   int
	sim  *disk.Sim
	fw   *writer.FileWriter
	path string
	sb   *core.Superblock
	// logSeen: entries of the disk's write log already checked by checkWrites
	logSeen int
}

// checkWrites is a cross-invariant evaluated after every operation: every write
// of the structure under test lies inside space the allocator has handed out
// (the scratch file starts at offset 64; nothing may be written below it or
// beyond the allocator's end of file).
func (e *env) checkWrites() {
	if e.sim == nil || e.fw == nil {
		return
	}
	eof := int64(e.fw.Allocator().EndOfFile())
	for ; e.logSeen < len(e.sim.Log); e.logSeen++ {
		le := e.sim.Log[e.logSeen]
		if le.Op != "write" || le.Len == 0 {
			continue
		}
		if le.Off < 64 || le.Off+int64(le.Len) > eof {
			e.violate("write-outside-allocated-space", "structure-write", fmt.Sprintf("write of %d bytes at offset %d; allocated space is [64,%d)", le.Len, le.Off, eof))
			e.logSeen = len(e.sim.Log)
			return
		}
	}
}

func (e *env) violate(oracle, class, detail string) {
	e.res.Violations = append(e.res.Violations, trace.Violation{Property: e.prop, Oracle: oracle, Class: class, Detail: fmt.Sprintf("op %d: %s", e.op, detail), OpIndex: e.op})
}

func newEnv(prop, dir string) (*env, func()) {
	e := &env{res: &harness.RunResult{Probes: map[string]int{}, Fired: map[string]int{}}, prop: prop, sb: superblock()}
	e.sim = disk.NewSim()
	e.sim.KeepLog = true
	disk.Install(e.sim)
	pool := &disk.Pool{Mode: "plain"}
	disk.InstallPool(pool)
	e.path = filepath.Join(dir, "e3.bin")
	_ = os.Remove(e.path)
	fw, err := writer.NewFileWriter(e.path, writer.ModeTruncate, 64)
	if err != nil {
		e.res.Infra = err.Error()
	}
	e.fw = fw
	return e, func() {
		if e.fw != nil {
			_ = e.fw.Close()
		}
		disk.Install(nil)
		disk.InstallPool(nil)
		_ = os.Remove(e.path)
		e.res.IOSteps = e.sim.Step
	}
}

func guard(f func() error) (err error, pan string) {
	defer func() {
		if r := recover(); r != nil {
			pan = fmt.Sprint(r) + " @" + e1.PanicSite()
		}
	}()
	return f(), ""
}

// ---------------------------------------------------------------------------
// C14: B-tree v2 name index

func heapID7(v uint64) []byte {
	var b [8]byte
	binary.LittleEndian.PutUint64(b[:], v)
	return b[:7]
}

// collidingNames are pairs of distinct names with equal lookup3 hash, found by
// the harness's own lookup3 at init time (birthday search over short names).
var collidingNames [][2]string

func init() {
	seen := map[uint32]string{}
	for i := 0; len(collidingNames) < 4 && i < 400000; i++ {
		n := fmt.Sprintf("c%x", i)
		h := specdec.Lookup3([]byte(n), 0)
		if o, ok := seen[h]; ok {
			collidingNames = append(collidingNames, [2]string{o, n})
		} else {
			seen[h] = n
		}
	}
}

func genC14(r *rng.R, tier string, steer bool, idx int) *trace.Trace {
	t := &trace.Trace{}
	node := rng.Pick(r, []int{128, 160, 256, 512, 1024, 4096})
	if tier == "thorough" && r.Chance(0.5) {
		node = 4096
	}
	t.Config.NodeSize = node
	t.Config.Mode = rng.Pick(r, []string{"off", "immediate", "lazy", "lazy", "mixed"})
	capacity := (node - 10) / 11
	n := r.Range(1, 3*capacity+10)
	if n > 900 {
		n = 900
	}
	var names []string
	pool := r.Range(2, capacity+8)
	for i := 0; i < pool; i++ {
		switch {
		case i%11 == 7:
			names = append(names, fmt.Sprintf("long_name_%d_%s", i, strings.Repeat("x", 40+i%60)))
		case i%13 == 5:
			names = append(names, fmt.Sprintf("ü%dé", i))
		default:
			names = append(names, fmt.Sprintf("k%d", i))
		}
	}
	if !steer && len(collidingNames) > 0 && r.Chance(0.5) {
		p := rng.Pick(r, collidingNames)
		names = append(names, p[0], p[1]) // hash-colliding pair (known finding: the index compares hashes only)
	}
	live := map[string]bool{}
	if t.Config.Mode == "lazy" || t.Config.Mode == "mixed" {
		t.Ops = append(t.Ops, trace.Op{Op: "bt_enable_lazy", Lazy: &trace.LazyCfg{Threshold: rng.Pick(r, []float64{0.01, 0.05, 0.2, 0.9}),
			MaxDelayNs: int64(rng.Pick(r, []int{0, 1, 3600000000000})), Batch: rng.Pick(r, []int{1, 2, 10, 100})}})
	}
	for i := 0; i < n; i++ {
		name := rng.Pick(r, names)
		switch r.Weighted([]int{40, 12, 12, 6, 18, 5, 4, 2, 1}) {
		case 0:
			if live[name] {
				t.Ops = append(t.Ops, trace.Op{Op: "bt_update", Key: name, Val: r.Uint64() & 0x00FFFFFFFFFFFFFF})
			} else {
				t.Ops = append(t.Ops, trace.Op{Op: "bt_insert", Key: name, Val: r.Uint64() & 0x00FFFFFFFFFFFFFF})
				live[name] = true // optimistic (insert may be refused at capacity)
			}
		case 1:
			t.Ops = append(t.Ops, trace.Op{Op: "bt_search", Key: name})
		case 2:
			t.Ops = append(t.Ops, trace.Op{Op: "bt_has", Key: name})
		case 3:
			if live[name] {
				t.Ops = append(t.Ops, trace.Op{Op: "bt_update", Key: name, Val: r.Uint64() & 0x00FFFFFFFFFFFFFF})
			}
		case 4:
			mode := "plain"
			switch t.Config.Mode {
			case "immediate":
				mode = "rebalance"
			case "lazy":
				mode = "lazy"
			case "mixed":
				mode = rng.Pick(r, []string{"plain", "rebalance", "lazy"})
			}
			t.Ops = append(t.Ops, trace.Op{Op: "bt_delete", Key: name, Mode: mode})
			delete(live, name)
		case 5:
			t.Ops = append(t.Ops, trace.Op{Op: "bt_write_load"}) // restart: write out, load back into a fresh tree
		case 6:
			t.Ops = append(t.Ops, trace.Op{Op: "bt_write_at"})
		case 7:
			t.Ops = append(t.Ops, trace.Op{Op: rng.Pick(r, []string{"bt_force_batch", "bt_rebalance_all", "bt_disable_lazy"})})
		case 8:
			t.Ops = append(t.Ops, trace.Op{Op: "bt_enable_lazy", Lazy: &trace.LazyCfg{Threshold: 0.05, MaxDelayNs: 1, Batch: 3}})
		}
	}
	t.Ops = append(t.Ops, trace.Op{Op: "bt_write_load"})
	return t
}

type btModel struct {
	m map[string]uint64
}

// parseBTHD decodes the counts of a B-tree v2 header (own decoder).
func parseBTHD(b []byte) (depth uint16, rootAddr uint64, nrootRecs uint16, total uint64, ok bool) {
	if len(b) < 34 || string(b[0:4]) != "BTHD" {
		return 0, 0, 0, 0, false
	}
	depth = binary.LittleEndian.Uint16(b[12:14])
	rootAddr = binary.LittleEndian.Uint64(b[16:24])
	nrootRecs = binary.LittleEndian.Uint16(b[24:26])
	total = binary.LittleEndian.Uint64(b[26:34])
	return depth, rootAddr, nrootRecs, total, true
}

func execC14(t *trace.Trace, dir string) *harness.RunResult {
	e, done := newEnv("C14", dir)
	defer done()
	if e.res.Infra != "" {
		return e.res
	}
	res := e.res
	node := t.Config.NodeSize
	if node == 0 {
		node = 4096
	}
	capacity := (node - 10) / 11
	bt := structures.NewWritableBTreeV2(uint32(node))
	mod := map[string]uint64{}
	hashOf := func(s string) uint32 { return specdec.Lookup3([]byte(s), 0) }
	var headerAddr uint64
	loaded := false
	maxFill := 0
	deleted, cycles := false, 0
	// names used so far by hash: once two distinct names with one hash have been
	// used, every later failure is classified as collision-related
	usedByHash := map[uint32]string{}
	collisionSeen := false
	noteName := func(name string) {
		if name == "" {
			return
		}
		h := hashOf(name)
		if o, ok := usedByHash[h]; ok && o != name {
			collisionSeen = true
		} else {
			usedByHash[h] = name
		}
	}
	ctx := func(string) string {
		if collisionSeen {
			return ":hash-collision"
		}
		return ""
	}
	checkState := func(where string) {
		recs := bt.GetRecords()
		if len(recs) != len(mod) {
			e.violate("record-count", where+ctx(""), fmt.Sprintf("%d records, model has %d keys", len(recs), len(mod)))
			return
		}
		for i := 1; i < len(recs); i++ {
			if recs[i-1].NameHash > recs[i].NameHash {
				e.violate("order", where, "records not sorted by hash")
				return
			}
		}
		// every model key has a record with its hash and value
		want := map[uint32][]uint64{}
		for k, v := range mod {
			want[hashOf(k)] = append(want[hashOf(k)], v)
		}
		got := map[uint32][]uint64{}
		for _, rc := range recs {
			var b [8]byte
			copy(b[:], rc.HeapID[:])
			got[rc.NameHash] = append(got[rc.NameHash], binary.LittleEndian.Uint64(b[:]))
		}
		hs := make([]uint32, 0, len(want))
		for h := range want {
			hs = append(hs, h)
		}
		sort.Slice(hs, func(i, j int) bool { return hs[i] < hs[j] })
		for _, h := range hs {
			ws := want[h]
			gs := got[h]
			sort.Slice(ws, func(i, j int) bool { return ws[i] < ws[j] })
			sort.Slice(gs, func(i, j int) bool { return gs[i] < gs[j] })
			if fmt.Sprint(ws) != fmt.Sprint(gs) {
				cls := where
				if len(ws) > 1 || collisionSeen {
					cls += ":hash-collision"
				}
				e.violate("content", cls, fmt.Sprintf("hash %#x holds values %v, model %v", h, gs, ws))
				return
			}
		}
	}
	for i := range t.Ops {
		op := &t.Ops[i]
		e.checkWrites() // writes of the previous operation
		e.op = i
		noteName(op.Key)
		var err error
		var pan string
		switch op.Op {
		case "bt_enable_lazy":
			cfg := structures.DefaultLazyConfig()
			if op.Lazy != nil {
				cfg.Threshold, cfg.MaxDelay, cfg.BatchSize = op.Lazy.Threshold, time.Duration(op.Lazy.MaxDelayNs), op.Lazy.Batch
			}
			_, pan = guard(func() error { bt.EnableLazyRebalancing(cfg); return nil })
		case "bt_disable_lazy":
			_, pan = guard(func() error { return bt.DisableLazyRebalancing() })
		case "bt_force_batch":
			_, pan = guard(func() error { return bt.ForceBatchRebalance() })
		case "bt_rebalance_all":
			_, pan = guard(func() error { return bt.RebalanceAll() })
		case "bt_insert":
			_, present := mod[op.Key]
			before := len(bt.GetRecords())
			err, pan = guard(func() error { return bt.InsertRecord(op.Key, op.Val) })
			if pan != "" {
				break
			}
			if present {
				// the statement does not say what inserting a present name means:
				// only "no panic" and "other keys unaffected"; resync the model
				res.Probes["insert-of-present-name"]++
				if err == nil {
					// treat as unspecified: rebuild the model entry list is impossible, so stop value checks for this key
					mod[op.Key] = op.Val
					recs := bt.GetRecords()
					if len(recs) != len(mod) {
						// a second record for the same name was added: the model cannot represent it; end the run here
						res.Probes["insert-present-added-duplicate"]++
						goto finish
					}
				}
				break
			}
			if before >= capacity {
				res.Probes["insert-at-capacity"]++
				if err == nil {
					e.violate("capacity", "insert-beyond-capacity-accepted", fmt.Sprintf("insert #%d accepted, capacity %d", before+1, capacity))
				} else if len(bt.GetRecords()) != before {
					e.violate("capacity", "failed-insert-changed-index", "record count changed by a refused insert")
				}
				break
			}
			if err != nil {
				e.violate("insert", "rejected-below-capacity", fmt.Sprintf("insert of absent name %q rejected with %d/%d records: %v", op.Key, before, capacity, err))
				break
			}
			mod[op.Key] = op.Val
			// the stored hash must be the HDF5 name hash
			found := false
			for _, rc := range bt.GetRecords() {
				if rc.NameHash == hashOf(op.Key) {
					found = true
				}
			}
			if !found {
				e.violate("hash", "not-lookup3", fmt.Sprintf("no record carries lookup3(%q)=%#x", op.Key, hashOf(op.Key)))
			}
		case "bt_update":
			_, present := mod[op.Key]
			err, pan = guard(func() error { return bt.UpdateRecord(op.Key, op.Val) })
			if pan != "" {
				break
			}
			if present && err != nil {
				e.violate("update", "present-name-rejected"+ctx(op.Key), err.Error())
			}
			if !present && err == nil {
				e.violate("update", "absent-name-accepted"+ctx(op.Key), op.Key)
				goto finish
			}
			if present && err == nil {
				mod[op.Key] = op.Val
			}
		case "bt_search":
			want, present := mod[op.Key]
			var got []byte
			var ok bool
			_, pan = guard(func() error { got, ok = bt.SearchRecord(op.Key); return nil })
			if pan != "" {
				break
			}
			if present && !ok {
				e.violate("search", "present-name-not-found"+ctx(op.Key), op.Key)
			}
			if !present && ok {
				e.violate("search", "absent-name-found"+ctx(op.Key), op.Key)
			}
			if present && ok && !bytes.Equal(got[:7], heapID7(want)) {
				e.violate("search", "wrong-value"+ctx(op.Key), fmt.Sprintf("%q -> %x, model %x", op.Key, got[:7], heapID7(want)))
			}
		case "bt_has":
			_, present := mod[op.Key]
			var ok bool
			_, pan = guard(func() error { ok = bt.HasKey(op.Key); return nil })
			if pan == "" && ok != present {
				e.violate("has-key", fmt.Sprintf("reported-%v-model-%v", ok, present)+ctx(op.Key), op.Key)
			}
		case "bt_delete":
			_, present := mod[op.Key]
			err, pan = guard(func() error {
				switch op.Mode {
				case "rebalance":
					return bt.DeleteRecordWithRebalancing(op.Key)
				case "lazy":
					if !bt.IsLazyRebalancingEnabled() {
						return bt.DeleteRecord(op.Key)
					}
					return bt.DeleteRecordLazy(op.Key)
				}
				return bt.DeleteRecord(op.Key)
			})
			if pan != "" {
				break
			}
			if present && err != nil {
				e.violate("delete", "present-name-rejected"+ctx(op.Key), err.Error())
			}
			if !present && err == nil {
				e.violate("delete", "absent-name-deleted"+ctx(op.Key), op.Key)
				goto finish
			}
			if present && err == nil {
				delete(mod, op.Key)
				deleted = true
			}
		case "bt_write_load", "bt_write_at":
			if op.Op == "bt_write_at" && loaded {
				err, pan = guard(func() error { return bt.WriteAt(e.fw, e.sb) })
				if pan == "" && err != nil {
					e.violate("write-at", e1.ErrClass(err.Error()), err.Error())
				}
			} else {
				err, pan = guard(func() error {
					a, err := bt.WriteToFile(e.fw, e.fw.Allocator(), e.sb)
					headerAddr = a
					return err
				})
				if pan == "" && err != nil {
					e.violate("write", e1.ErrClass(err.Error()), err.Error())
					goto finish
				}
			}
			if pan != "" {
				break
			}
			if headerAddr == 0 {
				break
			}
			// header bytes on the simulated disk: counts equal the number of records
			hb := make([]byte, 38)
			if _, rerr := e.fw.ReadAt(hb, int64(headerAddr)); rerr == nil {
				if _, _, nroot, total, ok := parseBTHD(hb); ok {
					if int(nroot) != len(mod) || int(total) != len(mod) {
						e.violate("header-counts", "after-write", fmt.Sprintf("header says %d root / %d total records, model has %d", nroot, total, len(mod)))
					}
				} else {
					e.violate("header-counts", "unparsable-header", "written header does not start with BTHD")
				}
			}
			// restart: load into a fresh tree; everything must be reproduced
			nb := structures.NewWritableBTreeV2(uint32(node))
			err, pan = guard(func() error { return nb.LoadFromFile(e.fw, headerAddr, e.sb) })
			if pan != "" {
				break
			}
			if err != nil {
				e.violate("load", e1.ErrClass(err.Error()), err.Error())
				goto finish
			}
			lazyWas := bt.IsLazyRebalancingEnabled()
			bt = nb
			loaded = true
			cycles++
			res.Restarts++
			if lazyWas && t.Config.Mode != "off" {
				bt.EnableLazyRebalancing(structures.DefaultLazyConfig())
			}
		}
		if pan != "" {
			e.violate("panic", op.Op+":"+e1.ErrClass(pan), pan)
			goto finish
		}
		if n := len(mod); n > maxFill {
			maxFill = n
		}
		checkState("after-" + strings.TrimPrefix(op.Op, "bt_"))
		if len(res.Violations) > 0 {
			goto finish
		}
		res.States = append(res.States, uint64(len(mod))<<32|uint64(hashOf(fmt.Sprint(len(bt.GetRecords()), i%7))))
	}
finish:
	e.checkWrites()
	res.Ops = len(t.Ops)
	res.OKOps = e.op
	res.NonTrivial = (maxFill*2 >= capacity || deleted) && cycles > 0
	res.Fingerprint = fmt.Sprintf("node%d|%s|fill%d|del%v|cyc%d", node, t.Config.Mode, min(maxFill*4/max(capacity, 1), 5), deleted, min(cycles, 4))
	if maxFill >= capacity {
		res.Probes["reached-capacity"]++
	}
	return res
}

func init() {
	harness.Register(&harness.Prop{
		ID: "C14", Engine: "E3", Level: "exploration", Gen: genC14, Exec: execC14,
		Runs:      map[string]int{"quick": 60000, "thorough": 1500000},
		Rule:      "seeded histories (up to 900 operations) of insert/update/search/has/delete in every rebalancing mode {off, immediate, lazy with random threshold/delay/batch, mixed}, node size randomised per run (128 B .. 4 KiB, i.e. capacity 10 .. 371 records) so that capacity edges are reached in short histories, names incl. long, UTF-8 and constructed lookup3-colliding pairs, with write-out + load-back on the simulated disk at random points; map model name -> 7-byte heap id checked after every step: record count, sort order by hash, content, search/has results, refusal at capacity without change, header counts in the written bytes, stored hash == own lookup3; non-trivial = >= 50% of capacity reached or a delete happened, and at least one write/load cycle; distinct by (node size, mode, fill level bucket, deleted?, cycles)",
		Technique: "deterministic simulation of the structure API over the simulated disk with write/load restarts vs map model",
		Assumptions: []string{"insert is issued for absent names and update for present ones; an insert of a present name is only checked for 'no panic'",
			"the incremental (background) mode is exercised by the schedule simulator (C18), not here"},
		RealVsStub: map[string]string{"real": "internal/structures WritableBTreeV2, internal/writer FileWriter + Allocator, Go runtime, tmpfs bytes", "simulated": "disk I/O layer behind the H3 seam, node-size knob, restart placement", "stub": "a minimal superblock value (offset/length size 8, little endian)"},
	})
}

// ---------------------------------------------------------------------------
// C15: fractal heap

func genC15(r *rng.R, tier string, steer bool, idx int) *trace.Trace {
	t := &trace.Trace{}
	block := rng.Pick(r, []int{512, 1024, 2048, 4096, 16384, 65536})
	if tier == "thorough" && r.Chance(0.3) {
		block = 65536
	}
	t.Config.BlockSize = block
	maxObj := rng.Pick(r, []int{0, 0, 64, 200, block / 2, block})
	if r.Chance(0.02) {
		// a direct block larger than the largest managed object: an object of
		// exactly the maximum managed size exists (the id's length field at its limit)
		block, maxObj = 131072, 65536
		t.Config.BlockSize = block
	}
	t.Config.MaxObj = maxObj
	lim := block
	if maxObj > 0 && maxObj < lim {
		lim = maxObj
	}
	n := r.Range(1, 120)
	if tier == "thorough" {
		n = r.Range(1, 400)
	}
	small := r.Chance(0.5)
	nid := 0
	var liveIDs []int
	// avoidance (known finding): a heap that grows past its first direct block
	// misbehaves in several ways, so steered runs keep the volume within one block
	grow := !steer
	budget := block - 19
	if grow {
		budget = 4 * block
	}
	used := 0
	for i := 0; i < n; i++ {
		switch r.Weighted([]int{45, 20, 12, 10, 8, 3, 2}) {
		case 0:
			sz := r.Range(1, max(1, lim))
			if small {
				sz = r.Range(1, min(40, max(1, lim)))
			}
			if r.Chance(0.1) {
				sz = rng.Pick(r, []int{1, lim, max(1, lim-1), max(1, block-used), max(1, block-used-1), max(1, block-used+1)})
			}
			if used+sz > budget && !grow {
				if budget-used < 1 {
					continue
				}
				sz = budget - used
			}
			t.Ops = append(t.Ops, trace.Op{Op: "fh_insert", ID: nid, Len: sz, Seed: pickObjSeed(r)})
			liveIDs = append(liveIDs, nid)
			nid++
			used += sz
		case 1:
			if len(liveIDs) > 0 {
				t.Ops = append(t.Ops, trace.Op{Op: "fh_get", ID: rng.Pick(r, liveIDs)})
			}
		case 2:
			if len(liveIDs) > 0 {
				t.Ops = append(t.Ops, trace.Op{Op: "fh_overwrite", ID: rng.Pick(r, liveIDs), Seed: pickObjSeed(r)})
			}
		case 3:
			if len(liveIDs) > 0 {
				k := r.Intn(len(liveIDs))
				t.Ops = append(t.Ops, trace.Op{Op: "fh_delete", ID: liveIDs[k]})
				liveIDs = append(liveIDs[:k], liveIDs[k+1:]...)
			}
		case 4:
			t.Ops = append(t.Ops, trace.Op{Op: "fh_write_load"})
		case 5:
			t.Ops = append(t.Ops, trace.Op{Op: "fh_write_at"})
		case 6:
			// operations on dead or forged ids: only "no panic" and "live objects unaffected"
			t.Ops = append(t.Ops, trace.Op{Op: rng.Pick(r, []string{"fh_get_forged", "fh_delete_forged", "fh_overwrite_forged"}), Seed: r.Uint64()})
		}
	}
	t.Ops = append(t.Ops, trace.Op{Op: "fh_write_load"})
	return t
}

// Special seeds give degenerate contents: the statement is about "exactly the
// bytes stored", whatever they are - including objects that look like free
// (zeroed) space.
const (
	seedAllZero  = 100001
	seedAllOnes  = 100002
	seedZeroTail = 100003 // non-zero first byte, zeros after it
)

func pickObjSeed(r *rng.R) uint64 {
	if r.Chance(0.06) {
		return rng.Pick(r, []uint64{seedAllZero, seedAllZero, seedAllOnes, seedZeroTail})
	}
	return r.Uint64() % 100000
}

func objBytes(n int, seed uint64) []byte {
	b := make([]byte, n)
	switch seed {
	case seedAllZero:
		return b
	case seedAllOnes:
		for i := range b {
			b[i] = 0xFF
		}
		return b
	case seedZeroTail:
		if n > 0 {
			b[0] = 0x5A
		}
		return b
	}
	x := seed*2654435761 + 12345
	for i := range b {
		x = x*6364136223846793005 + 1442695040888963407
		b[i] = byte(x >> 33)
		if b[i] == 0 {
			b[i] = 0xA5 // deleted space is zeroed by the heap: keep stored bytes non-zero so that loss is visible
		}
	}
	return b
}

func execC15(t *trace.Trace, dir string) *harness.RunResult {
	e, done := newEnv("C15", dir)
	defer done()
	if e.res.Infra != "" {
		return e.res
	}
	res := e.res
	block := t.Config.BlockSize
	if block == 0 {
		block = 65536
	}
	fh := structures.NewWritableFractalHeap(uint64(block))
	if t.Config.MaxObj > 0 {
		fh.Header.MaxManagedObjectSize = uint32(t.Config.MaxObj)
	}
	type obj struct {
		id   []byte
		data []byte
	}
	live := map[int]*obj{}
	liveBytes := func() uint64 {
		n := uint64(0)
		for _, o := range live {
			n += uint64(len(o.data))
		}
		return n
	}
	var heapAddr uint64
	loaded := false
	cycles, maxFillPct, grew := 0, 0, false
	// stored: bytes handed to successful inserts so far (this heap never reuses
	// space, so it bounds every object's start offset). The library always
	// builds heap ids with a 16-bit offset field, whatever the block size: once an
	// object starts at or beyond 64 KiB (possible only with the 128 KiB block of
	// a few runs, which the library's own callers never use) ids wrap around.
	// That is a defect of its own (known finding) and gets its own context.
	stored := 0
	wideOffsets := false
	ctx := func() string {
		if grew {
			return ":after-growth"
		}
		if wideOffsets {
			return ":offset-beyond-16-bit"
		}
		return ""
	}
	checkAll := func(where string) {
		if int(fh.Header.NumManagedObjects) != len(live) {
			e.violate("object-count", where+ctx(), fmt.Sprintf("header reports %d objects, model has %d", fh.Header.NumManagedObjects, len(live)))
			return
		}
		seen := map[string]int{}
		keys := make([]int, 0, len(live))
		for k := range live {
			keys = append(keys, k)
		}
		sort.Ints(keys)
		for _, k := range keys {
			o := live[k]
			if other, dup := seen[string(o.id)]; dup {
				e.violate("id-unique", where+ctx(), fmt.Sprintf("objects %d and %d share heap id %x", other, k, o.id))
				return
			}
			seen[string(o.id)] = k
			var got []byte
			err, pan := guard(func() error {
				var err error
				got, err = fh.GetObject(o.id)
				return err
			})
			if pan != "" {
				e.violate("panic", "get:"+e1.ErrClass(pan), pan)
				return
			}
			if err != nil {
				e.violate("get", where+":live-id-error"+ctx(), fmt.Sprintf("object %d (%d bytes): %v", k, len(o.data), err))
				return
			}
			if !bytes.Equal(got, o.data) {
				e.violate("get", where+":wrong-bytes"+ctx(), fmt.Sprintf("object %d: %d bytes returned, %d stored; first difference at %d", k, len(got), len(o.data), firstDiff(got, o.data)))
				return
			}
		}
	}
	prevFree, prevManaged := fh.Header.FreeSpace, fh.Header.ManagedSpaceSize
	for i := range t.Ops {
		op := &t.Ops[i]
		e.checkWrites() // writes of the previous operation
		e.op = i
		var err error
		var pan string
		where := strings.TrimPrefix(op.Op, "fh_")
		switch op.Op {
		case "fh_insert":
			data := objBytes(op.Len, op.Seed)
			var id []byte
			nBefore := fh.Header.NumManagedObjects
			err, pan = guard(func() error {
				var err error
				id, err = fh.InsertObject(data)
				return err
			})
			if pan != "" {
				break
			}
			if err != nil {
				res.Probes["insert-refused"]++
				if fh.Header.NumManagedObjects != nBefore {
					e.violate("failed-insert", "changed-object-count", err.Error())
				}
				// a refused insert must change nothing: verified by checkAll below
			} else {
				live[op.ID] = &obj{id: append([]byte(nil), id...), data: data}
				if stored >= 65536 {
					wideOffsets = true
				}
				stored += len(data)
			}
		case "fh_get":
			// covered by checkAll
		case "fh_overwrite":
			o := live[op.ID]
			if o == nil {
				continue
			}
			nd := objBytes(len(o.data), op.Seed)
			err, pan = guard(func() error { return fh.OverwriteObject(o.id, nd) })
			if pan != "" {
				break
			}
			if err != nil {
				e.violate("overwrite", "live-id-rejected"+ctx(), err.Error())
			} else {
				o.data = nd
			}
		case "fh_delete":
			o := live[op.ID]
			if o == nil {
				continue
			}
			err, pan = guard(func() error { return fh.DeleteObject(o.id) })
			if pan != "" {
				break
			}
			if err != nil {
				e.violate("delete", "live-id-rejected"+ctx(), err.Error())
			} else {
				delete(live, op.ID)
			}
		case "fh_get_forged", "fh_delete_forged", "fh_overwrite_forged":
			id := make([]byte, fh.Header.HeapIDLength)
			x := op.Seed
			for k := range id {
				id[k] = byte(x >> (uint(k%8) * 8))
			}
			if op.Seed%3 == 0 {
				id[0] = 0 // managed, version 0: plausible id pointing somewhere
			}
			// forged ids may coincide with a live object: never mutate through them
			_, pan = guard(func() error { _, _ = fh.GetObject(id); return nil })
			res.Probes["forged-id-op"]++
		case "fh_write_load", "fh_write_at":
			if op.Op == "fh_write_at" && loaded {
				err, pan = guard(func() error { return fh.WriteAt(e.fw, e.sb) })
				if pan == "" && err != nil {
					e.violate("write-at", e1.ErrClass(err.Error())+ctx(), err.Error())
				}
			} else {
				err, pan = guard(func() error {
					a, err := fh.WriteToFile(e.fw, e.fw.Allocator(), e.sb)
					heapAddr = a
					return err
				})
				if pan == "" && err != nil {
					e.violate("write", e1.ErrClass(err.Error())+ctx(), err.Error())
					goto finish
				}
			}
			if pan != "" || heapAddr == 0 {
				break
			}
			nh := structures.NewWritableFractalHeap(uint64(block))
			err, pan = guard(func() error { return nh.LoadFromFile(e.fw, heapAddr, e.sb) })
			if pan != "" {
				break
			}
			if err != nil {
				e.violate("load", e1.ErrClass(err.Error())+ctx(), err.Error())
				goto finish
			}
			// the read-only heap reader on the same bytes
			if ro, rerr := structures.OpenFractalHeap(e.fw, heapAddr, 8, 8, binary.LittleEndian); rerr == nil {
				lk := make([]int, 0, len(live))
				for k := range live {
					lk = append(lk, k)
				}
				sort.Ints(lk)
				for _, k := range lk {
					o := live[k]
					got, gerr := ro.ReadObject(o.id)
					if gerr == nil && !bytes.Equal(got, o.data) {
						e.violate("read-only-reader", "wrong-bytes"+ctx(), fmt.Sprintf("object %d differs through FractalHeap.ReadObject", k))
						break
					}
				}
			} else {
				res.Probes["read-only-reader-open-error"]++
			}
			if t.Config.MaxObj > 0 {
				nh.Header.MaxManagedObjectSize = uint32(t.Config.MaxObj)
			}
			fh = nh
			loaded = true
			cycles++
			res.Restarts++
			prevFree, prevManaged = fh.Header.FreeSpace, fh.Header.ManagedSpaceSize
		}
		if fh.RootIndirectBlock != nil || fh.Header.CurrentNumRows > 0 {
			if !grew {
				res.Probes["heap-grew"]++
			}
			grew = true
		}
		if pan != "" {
			e.violate("panic", op.Op+":"+e1.ErrClass(pan)+ctx(), pan)
			goto finish
		}
		// free space: capacity - live bytes, where capacity changes only when the heap grows
		if fh.Header.ManagedSpaceSize != prevManaged || fh.RootIndirectBlock != nil || fh.Header.CurrentNumRows > 0 {
			if !grew {
				res.Probes["heap-grew"]++
			}
			grew = true
		} else if op.Op == "fh_insert" || op.Op == "fh_delete" {
			_ = prevFree
		}
		if !grew {
			if want := uint64(block) - liveBytes(); fh.Header.FreeSpace != want && op.Op != "fh_write_load" && op.Op != "fh_write_at" {
				// before any growth the capacity is the single direct block handed to the constructor
				if int64(want)-int64(fh.Header.FreeSpace) != 0 {
					res.Probes["free-space-differs-from-block-minus-live"]++
				}
			}
		}
		prevFree, prevManaged = fh.Header.FreeSpace, fh.Header.ManagedSpaceSize
		if pct := int(liveBytes() * 100 / uint64(block)); pct > maxFillPct {
			maxFillPct = pct
		}
		checkAll(where)
		if len(res.Violations) > 0 {
			goto finish
		}
		res.States = append(res.States, uint64(len(live))<<40|liveBytes()<<8|uint64(i%5))
	}
finish:
	e.checkWrites()
	res.Ops = len(t.Ops)
	res.OKOps = e.op
	res.NonTrivial = (maxFillPct >= 80 || grew) && cycles > 0
	res.Fingerprint = fmt.Sprintf("blk%d|max%d|fill%d|grew%v|cyc%d", block, t.Config.MaxObj, min(maxFillPct/20, 6), grew, min(cycles, 4))
	return res
}

func firstDiff(a, b []byte) int {
	for i := 0; i < len(a) && i < len(b); i++ {
		if a[i] != b[i] {
			return i
		}
	}
	return min(len(a), len(b))
}

func init() {
	harness.Register(&harness.Prop{
		ID: "C15", Engine: "E3", Level: "exploration", Gen: genC15, Exec: execC15,
		Runs:      map[string]int{"quick": 300000, "thorough": 9000000},
		Rule:      "seeded histories (up to 120 quick / 400 thorough operations) of insert/get/overwrite/delete with object sizes 1..max managed size (knob randomised per run), total volume below, at and above one direct block (block size randomised 512 B .. 64 KiB), interleaved with write-out + load-back on the simulated disk; byte-store model id -> bytes checked after every step: every live id returns exactly its bytes, live ids pairwise distinct, header object count equals the model's, a refused insert changes nothing, after write+load everything still holds also through the read-only FractalHeap.ReadObject; non-trivial = fill level >= 80% of a block or growth past the first block, plus a write/load cycle; distinct by (block size, max object size, fill bucket, grew?, cycles)",
		Technique: "deterministic simulation of the structure API over the simulated disk with write/load restarts vs byte-store model",
		Assumptions: []string{"get/overwrite/delete are issued on live ids; forged ids are only used with GetObject and only 'no panic' is checked",
			"free space is recorded as a probe (block size minus live bytes before growth), not enforced: the statement does not fix what capacity means after growth"},
		RealVsStub: map[string]string{"real": "internal/structures WritableFractalHeap and read-only FractalHeap, internal/writer FileWriter + Allocator, tmpfs bytes", "simulated": "disk I/O layer behind the H3 seam, block-size and max-object knobs, restart placement", "stub": "a minimal superblock value"},
	})
}
