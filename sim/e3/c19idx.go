package e3

import (
	"fmt"
	"strings"
	"time"

	"github.com/scigolib/hdf5/internal/structures"
	"github.com/scigolib/hdf5/verifsim/e1"
	"github.com/scigolib/hdf5/verifsim/harness"
	"github.com/scigolib/hdf5/verifsim/rng"
	"github.com/scigolib/hdf5/verifsim/specdec"
	"github.com/scigolib/hdf5/verifsim/trace"
)

// C19, index-level configuration differential.
//
// Through the public FileWriter API the lazy/incremental/smart options never
// reach the delete path of the attribute name index on this tree (they are
// stored and validated only), so the file-level differential of e1/c19.go
// compares configurations that behave identically today. The code the options
// select does exist one level down (WritableBTreeV2: DeleteRecord /
// DeleteRecordWithRebalancing / DeleteRecordLazy + batch rebalancing), and C19's
// statement is about what is "visible after reopen" under each configuration.
// This part therefore runs one seeded history of index operations twice on the
// simulated disk - under the default configuration and under a seeded lazy
// configuration with toggles - with write-out + load-back (the restart) at the
// same points, and requires identical call results and identical reloaded
// content.

func init() {
	p := harness.Registry["C19"]
	if p == nil {
		return
	}
	oldGen, oldExec := p.Gen, p.Exec
	p.Gen = func(r *rng.R, tier string, steer bool, idx int) *trace.Trace {
		if idx%5 == 4 { // every fifth run; no draw from r, so the other runs' traces are unchanged
			return genC19Index(r, tier)
		}
		return oldGen(r, tier, steer, idx)
	}
	p.Exec = func(t *trace.Trace, dir string) *harness.RunResult {
		if t.Config.Mode == "index-diff" {
			return execC19Index(t, dir)
		}
		return oldExec(t, dir)
	}
}

func genC19Index(r *rng.R, tier string) *trace.Trace {
	t := &trace.Trace{}
	node := rng.Pick(r, []int{128, 256, 512, 1024, 4096})
	t.Config.NodeSize = node
	t.Config.Mode = "index-diff"
	t.Config.Lazy = &trace.LazyCfg{Threshold: rng.Pick(r, []float64{0.01, 0.05, 0.2, 0.5, 0.9}),
		MaxDelayNs: int64(rng.Pick(r, []int{0, 1, 3600000000000, 3600000000000})), Batch: rng.Pick(r, []int{1, 2, 10, 100})}
	capacity := (node - 10) / 11
	// distinct names with distinct hashes (the hash-only comparison of the index
	// is C14's known finding, not this check's subject)
	var names []string
	seen := map[uint32]bool{}
	for i := 0; len(names) < capacity+4 && i < 4*capacity+40; i++ {
		n := fmt.Sprintf("k%d", i)
		if i%9 == 4 {
			n = fmt.Sprintf("long_attribute_name_%d_%s", i, strings.Repeat("y", i%50))
		}
		if h := specdec.Lookup3([]byte(n), 0); !seen[h] {
			seen[h] = true
			names = append(names, n)
		}
	}
	n := r.Range(3, 2*capacity+6)
	if n > 800 {
		n = 800
	}
	// first fill to a seeded level so that deletions happen at every fill level
	fill := r.Range(0, capacity)
	var live []string
	isLive := map[string]bool{}
	ins := func(name string) {
		t.Ops = append(t.Ops, trace.Op{Op: "bt_insert", Key: name, Val: r.Uint64() & 0x00FFFFFFFFFFFFFF})
		if !isLive[name] {
			isLive[name] = true
			live = append(live, name)
		}
	}
	for i := 0; i < fill && i < len(names); i++ {
		ins(names[i])
	}
	for i := 0; i < n; i++ {
		switch r.Weighted([]int{30, 40, 10, 8, 6, 3, 3}) {
		case 0:
			ins(rng.Pick(r, names))
		case 1:
			if len(live) > 0 {
				k := r.Intn(len(live))
				t.Ops = append(t.Ops, trace.Op{Op: "bt_delete", Key: live[k]})
				delete(isLive, live[k])
				live = append(live[:k], live[k+1:]...)
			}
		case 2:
			if len(live) > 0 {
				t.Ops = append(t.Ops, trace.Op{Op: "bt_update", Key: rng.Pick(r, live), Val: r.Uint64() & 0x00FFFFFFFFFFFFFF})
			}
		case 3:
			t.Ops = append(t.Ops, trace.Op{Op: "bt_search", Key: rng.Pick(r, names)})
		case 4:
			t.Ops = append(t.Ops, trace.Op{Op: rng.Pick(r, []string{"bt_write_load", "bt_write_at"})})
		case 5:
			t.Ops = append(t.Ops, trace.Op{Op: "bt_force_batch"})
		case 6:
			t.Ops = append(t.Ops, trace.Op{Op: rng.Pick(r, []string{"bt_disable_lazy", "bt_enable_lazy"})})
		}
	}
	t.Ops = append(t.Ops, trace.Op{Op: "bt_write_load"})
	return t
}

// runIndex executes the history on a fresh index; configured selects the lazy
// configuration (and its toggles), otherwise every delete is the default
// DeleteRecord and the toggles are skipped. It returns one line per operation.
func runIndex(t *trace.Trace, e *env, configured bool) (lines []string, restarts int) {
	node := t.Config.NodeSize
	if node == 0 {
		node = 4096
	}
	lazyCfg := func() structures.LazyRebalancingConfig {
		cfg := structures.DefaultLazyConfig()
		if t.Config.Lazy != nil {
			cfg.Threshold, cfg.MaxDelay, cfg.BatchSize = t.Config.Lazy.Threshold, time.Duration(t.Config.Lazy.MaxDelayNs), t.Config.Lazy.Batch
		}
		return cfg
	}
	bt := structures.NewWritableBTreeV2(uint32(node))
	if configured {
		bt.EnableLazyRebalancing(lazyCfg())
	}
	var headerAddr uint64
	loaded := false
	content := func(b *structures.WritableBTreeV2) string {
		var sb strings.Builder
		recs := b.GetRecords()
		fmt.Fprintf(&sb, "n=%d", len(recs))
		for _, rc := range recs {
			fmt.Fprintf(&sb, " %08x=%x", rc.NameHash, rc.HeapID)
		}
		return sb.String()
	}
	for i := range t.Ops {
		op := &t.Ops[i]
		line := ""
		var err error
		var pan string
		switch op.Op {
		case "bt_insert":
			err, pan = guard(func() error { return bt.InsertRecord(op.Key, op.Val) })
			line = fmt.Sprintf("insert %v", err == nil)
		case "bt_update":
			err, pan = guard(func() error { return bt.UpdateRecord(op.Key, op.Val) })
			line = fmt.Sprintf("update %v", err == nil)
		case "bt_search":
			var got []byte
			var ok bool
			_, pan = guard(func() error { got, ok = bt.SearchRecord(op.Key); return nil })
			line = fmt.Sprintf("search %v %x", ok, got)
		case "bt_delete":
			err, pan = guard(func() error {
				if configured && bt.IsLazyRebalancingEnabled() {
					return bt.DeleteRecordLazy(op.Key)
				}
				return bt.DeleteRecord(op.Key)
			})
			line = fmt.Sprintf("delete %v", err == nil)
		case "bt_force_batch":
			if configured {
				_, pan = guard(func() error { return bt.ForceBatchRebalance() })
			}
		case "bt_disable_lazy":
			if configured {
				_, pan = guard(func() error { return bt.DisableLazyRebalancing() })
			}
		case "bt_enable_lazy":
			if configured {
				_, pan = guard(func() error { bt.EnableLazyRebalancing(lazyCfg()); return nil })
			}
		case "bt_write_load", "bt_write_at":
			if op.Op == "bt_write_at" && loaded {
				err, pan = guard(func() error { return bt.WriteAt(e.fw, e.sb) })
			} else {
				err, pan = guard(func() error {
					a, err := bt.WriteToFile(e.fw, e.fw.Allocator(), e.sb)
					if err == nil {
						headerAddr = a
					}
					return err
				})
			}
			if pan != "" || err != nil {
				line = "write-error " + e1.ErrClass(fmt.Sprint(err))
				break
			}
			nb := structures.NewWritableBTreeV2(uint32(node))
			err, pan = guard(func() error { return nb.LoadFromFile(e.fw, headerAddr, e.sb) })
			if pan != "" || err != nil {
				line = "reload-error " + e1.ErrClass(fmt.Sprint(err))
				break
			}
			lazyWas := bt.IsLazyRebalancingEnabled()
			bt = nb
			loaded = true
			restarts++
			if configured && lazyWas {
				bt.EnableLazyRebalancing(lazyCfg())
			}
			line = "reloaded " + content(bt)
		}
		if pan != "" {
			line = "panic " + e1.ErrClass(pan)
		}
		lines = append(lines, line)
		if strings.HasPrefix(line, "panic") || strings.HasPrefix(line, "reload-error") || strings.HasPrefix(line, "write-error") {
			break
		}
	}
	return lines, restarts
}

func execC19Index(t *trace.Trace, dir string) *harness.RunResult {
	e, done := newEnv("C19", dir)
	defer done()
	if e.res.Infra != "" {
		return e.res
	}
	res := e.res
	def, _ := runIndex(t, e, false)
	cfg, restarts := runIndex(t, e, true)
	res.Restarts = restarts
	res.Ops = len(t.Ops)
	deletes := 0
	for i := range t.Ops {
		if t.Ops[i].Op == "bt_delete" {
			deletes++
		}
	}
	for i := 0; i < len(def) && i < len(cfg); i++ {
		if def[i] == cfg[i] {
			continue
		}
		e.op = i
		kind := "call-result-differs"
		switch {
		case strings.HasPrefix(cfg[i], "reload-error"):
			kind = "reload-fails-under-lazy-configuration"
		case strings.HasPrefix(cfg[i], "panic"):
			kind = "panic-under-lazy-configuration"
		case strings.HasPrefix(cfg[i], "reloaded"):
			kind = "reloaded-content-differs"
		}
		a, b := def[i], cfg[i]
		if len(a) > 160 {
			a = a[:160]
		}
		if len(b) > 160 {
			b = b[:160]
		}
		e.violate("index-content", kind, fmt.Sprintf("op %d (%s): default configuration %q, lazy configuration %q", i, t.Ops[i].Op, a, b))
		break
	}
	if len(def) != len(cfg) && len(res.Violations) == 0 {
		e.violate("index-content", "history-ends-differently", fmt.Sprintf("%d vs %d operations executed", len(def), len(cfg)))
	}
	res.Probes["index-diff-runs"]++
	res.NonTrivial = deletes >= 1 && restarts >= 1
	if res.NonTrivial {
		res.Probes["index-diff:lazy-deletes-then-reload"]++
	}
	res.Fingerprint = fmt.Sprintf("index-diff|node%d|thr%v|delay%d|batch%d|d%d|r%d", t.Config.NodeSize, t.Config.Lazy.Threshold, t.Config.Lazy.MaxDelayNs, t.Config.Lazy.Batch, min(deletes, 20), min(restarts, 5))
	return res
}
