// Command vsim is the driver of the deterministic simulation harness.
package main

import (
	"encoding/json"
	"flag"
	"fmt"
	"os"
	"runtime/debug"
	"syscall"
	"time"

	_ "github.com/scigolib/hdf5/verifsim/e1"
	"github.com/scigolib/hdf5/verifsim/e2"
	_ "github.com/scigolib/hdf5/verifsim/e3"
	"github.com/scigolib/hdf5/verifsim/harness"
	"github.com/scigolib/hdf5/verifsim/trace"
)

func main() {
	if len(os.Args) < 2 {
		fmt.Fprintln(os.Stderr, "usage: vsim check|worker|replay|run-trace|gen ...")
		os.Exit(2)
	}
	switch os.Args[1] {
	case "run-trace":
		os.Exit(cmdRunTrace(os.Args[2:]))
	case "worker":
		os.Exit(cmdWorker(os.Args[2:]))
	case "check":
		os.Exit(cmdCheck(os.Args[2:]))
	case "replay":
		fs := flag.NewFlagSet("replay", flag.ExitOnError)
		mem := fs.Int("mem", 0, "address-space limit in MiB")
		_ = fs.Parse(os.Args[2:])
		if fs.NArg() < 1 {
			os.Exit(2)
		}
		if *mem > 0 {
			lim := uint64(*mem) << 20
			_ = syscall.Setrlimit(syscall.RLIMIT_AS, &syscall.Rlimit{Cur: lim, Max: lim})
			debug.SetMaxStack(256 << 20)
		}
		os.Exit(harness.Replay(fs.Arg(0)))
	case "materialize":
		if len(os.Args) < 4 {
			os.Exit(2)
		}
		t, err := trace.Load(os.Args[2])
		if err != nil {
			fmt.Fprintln(os.Stderr, err)
			os.Exit(2)
		}
		dir := harness.ScratchDir("mat")
		defer os.RemoveAll(dir)
		if err := e2.Materialize(t, dir, os.Args[3]); err != nil {
			fmt.Fprintln(os.Stderr, err)
			os.Exit(2)
		}
		os.Exit(0)
	case "mkknown":
		os.Exit(cmdMkKnown(os.Args[2:]))
	case "gen":
		os.Exit(cmdGen(os.Args[2:]))
	default:
		fmt.Fprintln(os.Stderr, "unknown command", os.Args[1])
		os.Exit(2)
	}
}

func cmdWorker(args []string) int {
	fs := flag.NewFlagSet("worker", flag.ExitOnError)
	pid := fs.String("p", "", "property")
	tier := fs.String("tier", "quick", "tier")
	seed := fs.Uint64("seed", 1, "seed")
	w := fs.Int("worker", 0, "worker index")
	n := fs.Int("workers", 1, "worker count")
	known := fs.String("known", "[]", "known signature regexps (JSON)")
	deadline := fs.Int("deadline", 0, "soft deadline seconds")
	runs := fs.Int("runs", 0, "override total runs")
	from := fs.Int("from", 0, "first absolute run index of this segment")
	progress := fs.String("progress", "", "progress announcement file")
	skipsub := fs.Int("skipsub", 0, "sub-runs of the first run already executed")
	mem := fs.Int("mem", 0, "address-space limit in MiB (0 = none)")
	_ = fs.Parse(args)
	if *mem > 0 {
		lim := uint64(*mem) << 20
		_ = syscall.Setrlimit(syscall.RLIMIT_AS, &syscall.Rlimit{Cur: lim, Max: lim})
		debug.SetMaxStack(256 << 20)
	}
	p := harness.Registry[*pid]
	if p == nil {
		fmt.Fprintln(os.Stderr, "unknown property", *pid)
		return 2
	}
	var ks []string
	_ = json.Unmarshal([]byte(*known), &ks)
	dir := harness.ScratchDir(*pid)
	defer os.RemoveAll(dir)
	emit := func(s *harness.Summary) {
		b, _ := json.Marshal(s)
		fmt.Println(string(b))
	}
	s := harness.RunWorker(p, harness.WorkerArgs{Tier: *tier, Seed: *seed, Worker: *w, Workers: *n, Known: ks, Dir: dir,
		Deadline: time.Duration(*deadline) * time.Second, Runs: *runs, FromIdx: *from, SkipSub: *skipsub, Progress: *progress, Emit: emit})
	emit(s)
	return 0
}

func cmdCheck(args []string) int {
	fs := flag.NewFlagSet("check", flag.ExitOnError)
	pid := fs.String("p", "", "property")
	tier := fs.String("tier", "quick", "tier")
	exe := fs.String("worker-exe", "", "worker executable (default: self)")
	_ = fs.Parse(args)
	p := harness.Registry[*pid]
	if p == nil {
		fmt.Fprintln(os.Stderr, "unknown property", *pid)
		return 2
	}
	if t := os.Getenv("VERIF_TIER"); t != "" && *tier == "" {
		*tier = t
	}
	we := *exe
	if we == "" {
		we, _ = os.Executable()
	}
	return harness.Check(p, *tier, we)
}

func cmdGen(args []string) int {
	fs := flag.NewFlagSet("gen", flag.ExitOnError)
	pid := fs.String("p", "", "property")
	tier := fs.String("tier", "quick", "tier")
	seed := fs.Uint64("seed", 1, "seed")
	idx := fs.Int("idx", 0, "run index")
	_ = fs.Parse(args)
	p := harness.Registry[*pid]
	if p == nil {
		return 2
	}
	os.Stdout.Write(harness.GenTrace(p, *seed, *tier, *idx).JSON())
	fmt.Println()
	return 0
}

// cmdMkKnown executes a trace and stores it with the observed signature as a
// replay file (used to create the committed replay files of known findings).
func cmdMkKnown(args []string) int {
	if len(args) < 2 {
		return 2
	}
	t, err := trace.Load(args[0])
	if err != nil {
		fmt.Fprintln(os.Stderr, err)
		return 2
	}
	p := harness.Registry[t.Property]
	if p == nil {
		return 2
	}
	dir := harness.ScratchDir("mkknown")
	defer os.RemoveAll(dir)
	res := harness.SafeExec(p, t, dir)
	if len(res.Violations) == 0 {
		fmt.Println("no violation")
		return 1
	}
	v := res.Violations[0]
	if len(args) > 2 {
		for _, x := range res.Violations {
			if x.Signature() == args[2] {
				v = x
			}
		}
	}
	t.Expect = &trace.Expect{Signature: v.Signature(), Observation: v.Detail}
	if err := t.Save(args[1]); err != nil {
		return 2
	}
	fmt.Println(v.Signature())
	return 0
}
