package main

import (
	"encoding/json"
	"fmt"
	"os"

	"github.com/scigolib/hdf5/verifsim/e1"
	"github.com/scigolib/hdf5/verifsim/trace"
)

// cmdRunTrace executes one E1 trace file and prints the outcome (debugging aid).
func cmdRunTrace(args []string) int {
	t, err := trace.Load(args[0])
	if err != nil {
		fmt.Fprintln(os.Stderr, err)
		return 2
	}
	dir, _ := os.MkdirTemp(scratchBase(), "vsim-probe-")
	defer os.RemoveAll(dir)
	out := e1.Run(t, e1.Options{Dir: dir, KeepLog: true, Attribute: true, KeepFile: len(args) > 1})
	for i, r := range out.Results {
		b, _ := json.Marshal(t.Ops[i])
		fmt.Printf("op %2d %s -> %+v\n", i, b, r)
	}
	for _, v := range out.Violations {
		fmt.Printf("VIOL %s :: %s\n", v.Signature(), v.Detail)
	}
	fmt.Printf("probes %v steps %d size %d\n", out.Probes, out.IOSteps, out.FileSize)
	if os.Getenv("SHOWLOG") != "" {
		for _, le := range out.Log {
			if le.Op == "write" {
				fmt.Printf("   step %d op %d write [%d,%d) %s\n", le.Step, le.OpIdx, le.Off, le.Off+int64(le.Len), le.Fn)
			}
		}
	}
	if out.Final != nil {
		for _, o := range out.Final.Objs {
			fmt.Printf("  %s %s info=%q f64=%v/%s strs=%v/%s attrs=%d/%s\n", o.Path, o.Kind, o.Info, o.F64, o.F64Err, o.Strs, o.StrsErr, len(o.Attrs), o.AttrsErr)
		}
		fmt.Println("open err:", out.Final.OpenErr)
	}
	if len(args) > 1 {
		fmt.Println("file kept at", dir)
	}
	return 0
}

func scratchBase() string {
	if st, err := os.Stat("/dev/shm"); err == nil && st.IsDir() {
		return "/dev/shm"
	}
	return "/var/tmp"
}
