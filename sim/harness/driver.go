package harness

import (
	"bufio"
	"bytes"
	"encoding/json"
	"fmt"
	"os"
	"os/exec"
	"path/filepath"
	"regexp"
	"runtime"
	"sort"
	"strconv"
	"strings"
	"sync"
	"time"

	"github.com/scigolib/hdf5/verifsim/trace"
)

// VerifRoot is /verif unless overridden (tests).
func VerifRoot() string {
	if v := os.Getenv("VERIF_ROOT"); v != "" {
		return v
	}
	return "/verif"
}

// Known is one entry of known_findings.json.
type Known struct {
	Property  string `json:"property"`
	Signature string `json:"signature"` // regexp over the violation signature
	What      string `json:"what"`
	Replay    string `json:"replay,omitempty"` // path relative to /verif
	Status    string `json:"status"`           // known | fixed
	Commit    string `json:"commit,omitempty"`
	Avoid     string `json:"avoid,omitempty"` // avoidance predicate of steered runs (documentation)
}

func LoadKnown() []Known {
	b, err := os.ReadFile(filepath.Join(VerifRoot(), "known_findings.json"))
	if err != nil {
		return nil
	}
	var ks []Known
	if err := json.Unmarshal(b, &ks); err != nil {
		fmt.Fprintln(os.Stderr, "known_findings.json unparsable:", err)
		os.Exit(2)
	}
	return ks
}

// Seed returns VERIF_SEED (default 1).
func Seed() uint64 {
	if v := os.Getenv("VERIF_SEED"); v != "" {
		if n, err := strconv.ParseUint(v, 10, 64); err == nil {
			return n
		}
		if n, err := strconv.ParseInt(v, 10, 64); err == nil {
			return uint64(n)
		}
	}
	return 1
}

// CommandFor builds the command that runs one vsim sub-command in a worker
// process. The E4 test binary replaces it (its sub-commands are passed through
// an environment variable of a `go test` binary).
var CommandFor = func(exe string, args []string) *exec.Cmd {
	c := exec.Command(exe, args...)
	c.Env = os.Environ()
	return c
}

type workerOut struct {
	sum   *Summary
	err   string
	crash *Failure
}

// Check runs the whole check of one property and returns the exit code.
func Check(p *Prop, tier string, workerExe string) int {
	start := time.Now()
	seed := Seed()
	root := VerifRoot()
	fmt.Printf("vsim check property=%s tier=%s VERIF_SEED=%d engine=%s\n", p.ID, tier, seed, p.Engine)

	// --- known findings: replay each committed entry in a fresh process
	var knownPatterns []string
	knownConfirmed := 0
	var knownLines []string
	for _, k := range LoadKnown() {
		if k.Property != p.ID || k.Status != "known" {
			continue
		}
		knownPatterns = append(knownPatterns, k.Signature)
		reproduced := false
		if k.Replay != "" {
			rp := filepath.Join(root, k.Replay)
			code, out := runReplay(workerExe, rp)
			if code == 1 && matchSigInOutput(out, k.Signature) {
				reproduced = true
			} else if code == 2 {
				fmt.Printf("INFRA: replay of known finding %s failed to run:\n%s\n", k.Replay, out)
				return 2
			}
		}
		if reproduced {
			knownConfirmed++
			line := fmt.Sprintf("KNOWN-FINDING: property=%s %s [signature %s]", p.ID, k.What, k.Signature)
			knownLines = append(knownLines, line)
			fmt.Println(line)
		} else {
			fmt.Printf("note: known finding no longer reproduces from its replay file (%s): %s\n", k.Replay, k.What)
		}
	}

	// --- fan out workers
	workers := runtime.NumCPU()
	if v := os.Getenv("VERIF_WORKERS"); v != "" {
		if n, err := strconv.Atoi(v); err == nil && n > 0 {
			workers = n
		}
	}
	total := p.Runs[tier]
	if total < workers {
		workers = max(1, total)
	}
	deadline := 100 * time.Second
	if tier == "thorough" {
		deadline = 25 * time.Minute
	}
	if v := os.Getenv("VERIF_DEADLINE_S"); v != "" {
		if n, err := strconv.Atoi(v); err == nil {
			deadline = time.Duration(n) * time.Second
		}
	}
	outs := make([][]workerOut, workers)
	var wg sync.WaitGroup
	kp, _ := json.Marshal(knownPatterns)
	progDir := ScratchDir("progress")
	defer os.RemoveAll(progDir)
	for w := 0; w < workers; w++ {
		wg.Add(1)
		go func(w int) {
			defer wg.Done()
			from, skip := 0, 0
			prog := filepath.Join(progDir, fmt.Sprintf("w%d.json", w))
			began := time.Now()
			deaths := 0
			for attempt := 0; attempt < 5000; attempt++ {
				// the soft deadline covers all segments of this worker together, and a
				// worker that keeps dying (every death of a hang costs the watchdog's
				// full wait) stops after a few deaths: the deaths found so far are reported
				left := deadline - time.Since(began)
				if attempt > 0 && (left < 5*time.Second || deaths >= 6) {
					break
				}
				if left < 5*time.Second {
					left = 5 * time.Second
				}
				_ = os.Remove(prog)
				args := []string{"worker", "-p", p.ID, "-tier", tier, "-seed", strconv.FormatUint(seed, 10),
					"-worker", strconv.Itoa(w), "-workers", strconv.Itoa(workers), "-known", string(kp),
					"-deadline", strconv.Itoa(int(left.Seconds())), "-from", strconv.Itoa(from), "-skipsub", strconv.Itoa(skip), "-progress", prog,
					"-mem", strconv.Itoa(p.MemLimitMiB)}
				o := runWorkerProc(workerExe, args, deadline*3+120*time.Second, prog, time.Duration(p.HangSeconds)*time.Second)
				outs[w] = append(outs[w], o)
				if o.sum != nil && o.sum.Done {
					break
				}
				// the worker died: attribute the death to the announced trace
				var pr Progress
				b, err := os.ReadFile(prog)
				if err != nil || json.Unmarshal(b, &pr) != nil || pr.Trace == nil {
					outs[w][len(outs[w])-1].err = "worker died without announcing a trace: " + o.err
					return
				}
				t := pr.Trace
				if pr.Fault != nil {
					t.Faults = []trace.Fault{*pr.Fault}
				}
				cls := crashClass(o.err)
				if cls == "" {
					outs[w][len(outs[w])-1].err = "worker died: " + o.err
					return
				}
				outs[w][len(outs[w])-1].crash = &Failure{Signature: p.ID + "/fatal/" + cls, Detail: "worker process died while executing this trace: " + firstLine(o.err),
					Seed: seed, RunIndex: pr.Idx, Trace: t, OrigOps: len(t.Ops), MinOps: len(t.Ops), Count: 1}
				outs[w][len(outs[w])-1].err = ""
				// deaths that belong to a known finding do not count: they are expected
				// on the unchanged tree and must not shorten the tier
				knownDeath := false
				for _, kpat := range knownPatterns {
					if re, err := regexp.Compile("^(?:" + kpat + ")$"); err == nil && re.MatchString(p.ID+"/fatal/"+cls) {
						knownDeath = true
					}
				}
				if !knownDeath {
					deaths++
				}
				// resume: the same run after the sub-run that killed the worker, or
				// the next run when the death was not inside an announced sub-run
				if pr.Fault != nil && pr.Sub > 0 {
					from, skip = pr.Idx, pr.Sub
				} else {
					from, skip = pr.Idx+1, 0
				}
			}
		}(w)
	}
	wg.Wait()

	// --- aggregate
	agg := &Summary{Property: p.ID, Probes: map[string]int{}, Fired: map[string]int{}, KnownHits: map[string]int{}}
	bySig := map[string]*Failure{}
	fps := map[uint64]bool{}
	states := map[uint64]bool{}
	inter := map[uint64]bool{}
	var flat []workerOut
	for w, segs := range outs {
		for _, o := range segs {
			if o.err != "" {
				fmt.Printf("INFRA: worker %d: %s\n", w, o.err)
				return 2
			}
			flat = append(flat, o)
		}
	}
	crashes := 0
	for _, o := range flat {
		if o.crash != nil {
			crashes++
			isKnown := false
			for _, k := range knownPatterns {
				if re, err := regexp.Compile("^(?:" + k + ")$"); err == nil && re.MatchString(o.crash.Signature) {
					isKnown = true
				}
			}
			if isKnown {
				agg.KnownHits[o.crash.Signature]++
			} else if g := bySig[o.crash.Signature]; g == nil {
				c := *o.crash
				bySig[o.crash.Signature] = &c
			} else {
				g.Count++
			}
		}
		if o.sum == nil {
			continue
		}
		s := o.sum
		agg.Evaluations += s.Evaluations
		agg.SubRuns += s.SubRuns
		agg.NonTrivial += s.NonTrivial
		agg.IOSteps += s.IOSteps
		agg.Restarts += s.Restarts
		agg.Ops += s.Ops
		agg.OKOps += s.OKOps
		agg.SimNs += s.SimNs
		agg.Steered += s.Steered
		agg.Unsteered += s.Unsteered
		agg.Infra = append(agg.Infra, s.Infra...)
		for _, h := range s.Fingerprints {
			fps[h] = true
		}
		for _, h := range s.StateHashes {
			states[h] = true
		}
		for _, h := range s.Interleave {
			inter[h] = true
		}
		for k, v := range s.Probes {
			agg.Probes[k] += v
		}
		for k, v := range s.Fired {
			agg.Fired[k] += v
		}
		for k, v := range s.KnownHits {
			agg.KnownHits[k] += v
		}
		if len(agg.Samples) < 3 {
			agg.Samples = append(agg.Samples, s.Samples...)
		}
		for i := range s.Failures {
			f := s.Failures[i]
			if g := bySig[f.Signature]; g == nil || len(f.Trace.Ops) < len(g.Trace.Ops) {
				if g != nil {
					f.Count += g.Count
				}
				ff := f
				bySig[f.Signature] = &ff
			} else {
				g.Count += f.Count
			}
		}
	}
	hardInfra := false
	for _, m := range agg.Infra {
		if !strings.Contains(m, "soft deadline") {
			hardInfra = true
		}
		fmt.Println("infra:", m)
	}

	// --- confirm and report failures
	violations := 0
	sigs := make([]string, 0, len(bySig))
	for k := range bySig {
		sigs = append(sigs, k)
	}
	sort.Strings(sigs)
	_ = os.MkdirAll(filepath.Join(root, "replays"), 0o755)
	for _, sig := range sigs {
		f := bySig[sig]
		f.Trace.Expect = &trace.Expect{Signature: sig, Observation: f.Detail}
		name := fmt.Sprintf("%s-%016x.json", p.ID, hash64(sig))
		rp := filepath.Join(root, "replays", name)
		if err := f.Trace.Save(rp); err != nil {
			fmt.Println("INFRA: cannot write replay file:", err)
			return 2
		}
		okCount := 0
		var lastOut string
		attempts := 2
		if p.ReplayAttempts > attempts {
			attempts = p.ReplayAttempts
		}
		for i := 0; i < attempts && okCount < 2; i++ {
			code, out := runReplay(workerExe, rp)
			lastOut = out
			if code == 1 && matchSigInOutput(out, regexp.QuoteMeta(sig)) {
				okCount++
			}
		}
		if okCount < 2 {
			// never echo a VIOLATION line of the replay process (it may have found something else)
			clean := strings.ReplaceAll(lastOut, "VIOLATION property=", "(replay) violation-line property=")
			if strings.Contains(sig, "/fatal/out-of-memory") {
				// a worker that died of memory exhaustion after many runs in one process
				// but not in a fresh process: inconclusive, not a violation and not a
				// harness fault (soundness rule: non-reproducing failures are never reported)
				fmt.Printf("note: worker death %s did not reproduce in a fresh process (%d/2): inconclusive, not reported; replay=%s\n", sig, okCount, rp)
				agg.Infra = append(agg.Infra, "non-reproducing worker death (memory pressure): "+sig)
				continue
			}
			fmt.Printf("INFRA: failure %s did not reproduce from its replay file twice (%d/2); replay=%s\n%s\n", sig, okCount, rp, clean)
			hardInfra = true
			continue
		}
		violations++
		fmt.Printf("violation: %s (x%d; %d ops, minimised from %d in %d execs; seed %d run %d): %s\n",
			sig, f.Count, f.MinOps, f.OrigOps, f.Execs, f.Seed, f.RunIndex, f.Detail)
		fmt.Printf("VIOLATION property=%s replay=%s\n", p.ID, rp)
	}

	// --- evidence
	wall := time.Since(start).Seconds()
	samples := []interface{}{}
	for _, s := range agg.Samples {
		samples = append(samples, s)
	}
	if len(samples) == 0 {
		samples = append(samples, GenTrace(p, seed, tier, 0))
	}
	if len(samples) > 3 {
		samples = samples[:3]
	}
	cov := map[string]interface{}{
		"evaluations":              agg.Evaluations + agg.SubRuns,
		"distinct_nontrivial":      len(fps),
		"rule":                     p.Rule,
		"samples":                  samples,
		"simulated_runs":           agg.Evaluations,
		"sub_executions":           agg.SubRuns,
		"nontrivial_runs":          agg.NonTrivial,
		"runs_per_hour":            int(float64(agg.Evaluations+agg.SubRuns) / wall * 3600),
		"seeds":                    []uint64{seed},
		"workers":                  workers,
		"io_steps_total":           agg.IOSteps,
		"restarts":                 agg.Restarts,
		"ops_total":                agg.Ops,
		"op_acceptance_rate":       ratio(agg.OKOps, agg.Ops),
		"simulated_time_s":         float64(agg.SimNs) / 1e9,
		"faults_injected":          agg.Fired,
		"distinct_states":          len(states),
		"distinct_interleavings":   len(inter),
		"probes":                   agg.Probes,
		"steered_runs":             agg.Steered,
		"unsteered_runs":           agg.Unsteered,
		"known_findings_confirmed": knownConfirmed,
		"known_finding_hits":       agg.KnownHits,
		"known_finding_lines":      knownLines,
		"real_vs_stub":             p.RealVsStub,
		"infra_notes":              agg.Infra,
		"engine":                   p.Engine,
		"technique":                p.Technique,
	}
	ev := map[string]interface{}{
		"property_id": p.ID,
		"tier":        tier,
		"seed":        int64(seed),
		"level":       p.Level,
		"coverage":    cov,
		"assumptions": p.Assumptions,
		"wall_s":      wall,
		"violations":  violations,
	}
	_ = os.MkdirAll(filepath.Join(root, "evidence"), 0o755)
	b, _ := json.MarshalIndent(ev, "", " ")
	if err := os.WriteFile(filepath.Join(root, "evidence", p.ID+".json"), b, 0o644); err != nil {
		fmt.Println("INFRA: cannot write evidence:", err)
		return 2
	}
	kh := 0
	for _, v := range agg.KnownHits {
		kh += v
	}
	fmt.Printf("summary: runs=%d sub=%d nontrivial=%d distinct=%d states=%d faults=%v known_hits=%d (in %d signatures) violations=%d wall=%.1fs\n",
		agg.Evaluations, agg.SubRuns, agg.NonTrivial, len(fps), len(states), agg.Fired, kh, len(agg.KnownHits), violations, wall)
	zero := []string{}
	for k, v := range agg.Probes {
		if v == 0 {
			zero = append(zero, k)
		}
	}
	if len(zero) > 0 {
		fmt.Println("warning: probes at zero:", zero)
	}
	if violations > 0 {
		return 1
	}
	if hardInfra {
		return 2
	}
	return 0
}

func ratio(a, b int64) float64 {
	if b == 0 {
		return 0
	}
	return float64(a) / float64(b)
}

func runWorkerProc(exe string, args []string, hard time.Duration, prog string, hang time.Duration) workerOut {
	cmd := CommandFor(exe, args)
	cmd.Env = append(cmd.Env, "GOMAXPROCS=1")
	var stdout, stderr bytes.Buffer
	cmd.Stdout = &stdout
	cmd.Stderr = &stderr
	if err := cmd.Start(); err != nil {
		return workerOut{err: err.Error()}
	}
	done := make(chan error, 1)
	go func() { done <- cmd.Wait() }()
	var procErr string
	startT := time.Now()
	tick := time.NewTicker(500 * time.Millisecond)
	defer tick.Stop()
wait:
	for {
		select {
		case err := <-done:
			if err != nil {
				es := stderr.String()
				head := es
				if len(head) > 2500 {
					head = head[:2500]
				}
				procErr = fmt.Sprintf("worker exited: %v\nstderr: %s\n...\n%s", err, head, tail(es, 800))
			}
			break wait
		case <-tick.C:
			if time.Since(startT) > hard {
				_ = cmd.Process.Kill()
				<-done
				return workerOut{err: "worker watchdog fired (hard timeout)"}
			}
			if hang > 0 && prog != "" {
				if st, err := os.Stat(prog); err == nil && time.Since(st.ModTime()) > hang {
					_ = cmd.Process.Kill()
					<-done
					procErr = "HANG: no progress for " + hang.String()
					break wait
				}
			}
		}
	}
	// the last summary line printed is the most complete one
	var last string
	sc := bufio.NewScanner(&stdout)
	sc.Buffer(make([]byte, 1<<20), 1<<30)
	for sc.Scan() {
		l := sc.Text()
		if strings.HasPrefix(l, "{\"property\"") {
			last = l
		}
	}
	var sum *Summary
	if last != "" {
		var s Summary
		if err := json.Unmarshal([]byte(last), &s); err == nil {
			sum = &s
		}
	}
	if procErr == "" && (sum == nil || !sum.Done) {
		procErr = "worker printed no final summary; stderr: " + tail(stderr.String(), 2000)
	}
	return workerOut{sum: sum, err: procErr}
}

// crashClass classifies the death of a worker process; "" = not a recognised
// library-induced death (then it is infrastructure trouble).
func crashClass(msg string) string {
	c := crashKind(msg)
	if c == "" || c == "hang" {
		return c
	}
	if c == "deadlock" {
		// the dying worker named the lock site itself
		if i := strings.Index(msg, "HANG: deadlock "); i >= 0 {
			rest := msg[i+len("HANG: deadlock "):]
			if j := strings.IndexAny(rest, "\n\r"); j >= 0 {
				rest = rest[:j]
			}
			return "deadlock:" + strings.TrimSpace(rest)
		}
		return c
	}
	// the first library frame of the dying goroutine names the site
	for _, l := range strings.Split(msg, "\n") {
		l = strings.TrimSpace(l)
		if strings.HasPrefix(l, "github.com/scigolib/hdf5") && !strings.HasPrefix(l, "github.com/scigolib/hdf5/verifsim") {
			fn := strings.TrimPrefix(l, "github.com/scigolib/hdf5")
			if i := strings.LastIndex(fn, "("); i > 0 {
				fn = fn[:i]
			}
			return c + "@" + fn
		}
	}
	return c
}

func crashKind(msg string) string {
	switch {
	case strings.Contains(msg, "HANG: deadlock "):
		return "deadlock"
	case strings.HasPrefix(msg, "HANG"):
		return "hang"
	case strings.Contains(msg, "out of memory") || strings.Contains(msg, "cannot allocate memory"):
		return "out-of-memory"
	case strings.Contains(msg, "stack overflow") || strings.Contains(msg, "stack exceeds"):
		return "stack-overflow"
	case strings.Contains(msg, "fatal error:"):
		return "fatal-runtime-error"
	}
	return ""
}

func firstLine(s string) string {
	for _, l := range strings.Split(s, "\n") {
		if strings.Contains(l, "fatal error") || strings.Contains(l, "HANG") || strings.Contains(l, "runtime:") {
			return strings.TrimSpace(l)
		}
	}
	if i := strings.Index(s, "\n"); i > 0 {
		return s[:i]
	}
	return s
}

func tail(s string, n int) string {
	if len(s) > n {
		return s[len(s)-n:]
	}
	return s
}

// runReplay replays a trace file in a fresh process. Exit code 1 = violation
// reproduced, 0 = nothing found, 2 = trouble.
func runReplay(exe, path string) (int, string) {
	mem, hang, prop := 0, 0, ""
	if t, err := trace.Load(path); err == nil {
		prop = t.Property
		if p := Registry[t.Property]; p != nil {
			mem, hang = p.MemLimitMiB, p.HangSeconds
		}
	}
	cmd := CommandFor(exe, []string{"replay", "-mem", strconv.Itoa(mem), path})
	cmd.Env = append(cmd.Env, "GOMAXPROCS=1")
	var out bytes.Buffer
	cmd.Stdout = &out
	cmd.Stderr = &out
	done := make(chan error, 1)
	if err := cmd.Start(); err != nil {
		return 2, err.Error()
	}
	go func() { done <- cmd.Wait() }()
	limit := 5 * time.Minute
	if hang > 0 {
		limit = time.Duration(hang) * time.Second
	}
	select {
	case err := <-done:
		if err == nil {
			return 0, out.String()
		}
		o := out.String()
		if cls := crashClass(o); cls != "" && prop != "" {
			return 1, o + "\nsignature: " + prop + "/fatal/" + cls + "\n"
		}
		if ee, ok := err.(*exec.ExitError); ok {
			return ee.ExitCode(), o
		}
		return 2, err.Error()
	case <-time.After(limit):
		_ = cmd.Process.Kill()
		<-done
		if hang > 0 && prop != "" {
			return 1, out.String() + "\nsignature: " + prop + "/fatal/hang\n"
		}
		return 2, "replay timed out"
	}
}

func matchSigInOutput(out, pattern string) bool {
	re, err := regexp.Compile("^(?:" + pattern + ")$")
	if err != nil {
		return false
	}
	for _, l := range strings.Split(out, "\n") {
		if strings.HasPrefix(l, "signature: ") {
			if re.MatchString(strings.TrimPrefix(l, "signature: ")) {
				return true
			}
		}
	}
	return false
}

// Replay executes one trace file in this process and prints what it finds.
func Replay(path string) int {
	t, err := trace.Load(path)
	if err != nil {
		fmt.Println("cannot load trace:", err)
		return 2
	}
	p := Registry[t.Property]
	if p == nil {
		fmt.Println("unknown property", t.Property)
		return 2
	}
	dir := ScratchDir("replay")
	defer os.RemoveAll(dir)
	res := SafeExec(p, t, dir)
	if res.Infra != "" {
		fmt.Println("INFRA:", res.Infra)
		return 2
	}
	if len(res.Violations) == 0 {
		fmt.Println("no violation on replay")
		return 0
	}
	seen := map[string]bool{}
	for _, v := range res.Violations {
		if seen[v.Signature()] {
			continue
		}
		seen[v.Signature()] = true
		fmt.Println("signature: " + v.Signature())
		fmt.Println("  detail: " + v.Detail)
	}
	fmt.Printf("VIOLATION property=%s replay=%s\n", t.Property, path)
	return 1
}
