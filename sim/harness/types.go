// Package harness is the property-independent part of the simulator: worker
// loop, delta-debugging minimiser, known-findings protocol, evidence files and
// the check driver.
package harness

import (
	"github.com/scigolib/hdf5/verifsim/rng"
	"github.com/scigolib/hdf5/verifsim/trace"
)

// RunResult is what one simulated run reports back.
type RunResult struct {
	Violations   []trace.Violation
	NonTrivial   bool
	Fingerprint  string // distinctness key (per-property rule)
	Probes       map[string]int
	IOSteps      int
	Restarts     int
	Ops          int
	OKOps        int
	Fired        map[string]int // faults that actually fired, by kind
	States       []uint64       // model-state hashes reached
	Interleaving uint64         // E4: hash of the (task, site) sequence
	SimNs        int64          // simulated (fake-clock) nanoseconds covered
	SubRuns      int            // executions performed inside this run (prefix / fault enumeration)
	Infra        string         // non-empty: infrastructure trouble (not a violation)
	// Narrow maps a violation signature to an equivalent trace that names the
	// single fault that exposed it (fault-enumeration engines); the minimiser
	// starts from it instead of re-enumerating every fault position.
	Narrow map[string]*trace.Trace
}

// Prop describes how one property is checked.
type Prop struct {
	ID     string
	Engine string
	Level  string // exploration | fault_enumeration
	// Gen produces the idx-th trace of a batch. steer=true means the run is
	// generated under the avoidance predicates of the known findings.
	Gen func(r *rng.R, tier string, steer bool, idx int) *trace.Trace
	// Exec executes a trace in dir and reports the result.
	Exec func(t *trace.Trace, dir string) *RunResult
	// Runs is the total number of runs per tier (split over workers).
	Runs map[string]int
	// Simplify returns simpler variants of op i (optional).
	Simplify    func(t *trace.Trace, i int) []*trace.Trace
	Rule        string
	Technique   string
	Assumptions []string
	RealVsStub  map[string]string
	// UnsteeredShare is the share of runs generated without avoidance (default 0.2).
	UnsteeredShare float64
	// NeedsTestBinary: executed by the E4 test binary instead of vsim itself.
	NeedsTestBinary bool
	// MaxShrinkExecs bounds the minimiser (default 400).
	MaxShrinkExecs int
	// MemLimitMiB: address-space limit of worker and replay processes (0 = none).
	// Used where the library may attempt huge allocations on damaged input.
	MemLimitMiB int
	// HangSeconds: a worker whose progress file does not change for this long is
	// killed and the announced trace is reported as a hang (0 = no watchdog).
	HangSeconds int
	// ReplayAttempts: how many fresh-process replays may be used to obtain the two
	// reproductions a report needs (default 2 = both must reproduce). Larger only
	// where a residual choice is outside the simulator's control (E4: Go's select
	// among simultaneously ready cases uses the runtime's unseeded PRNG).
	ReplayAttempts int
	// KeepLastFault: a trace without faults means "enumerate every fault", so
	// the minimiser must not drop the last explicit fault.
	KeepLastFault bool
}

// Registry of all properties (filled by package registration).
var Registry = map[string]*Prop{}

func Register(p *Prop) {
	// every history/structure run takes milliseconds: a worker that announces no
	// new run for a minute hangs inside the library (reported as <prop>/fatal/hang
	// after two fresh-process replays, like every worker death)
	if p.HangSeconds == 0 && (p.Engine == "E1" || p.Engine == "E3") {
		p.HangSeconds = 60
	}
	Registry[p.ID] = p
}

// Failure is one failing run reported by a worker.
type Failure struct {
	Signature string       `json:"signature"`
	Detail    string       `json:"detail"`
	Seed      uint64       `json:"seed"`
	RunIndex  int          `json:"run_index"`
	Trace     *trace.Trace `json:"trace"`
	OrigOps   int          `json:"orig_ops"`
	MinOps    int          `json:"min_ops"`
	Execs     int          `json:"shrink_execs"`
	Known     bool         `json:"known"`
	Count     int          `json:"count"`
}

// Summary is the last line a worker prints.
type Summary struct {
	Property     string            `json:"property"`
	Worker       int               `json:"worker"`
	Evaluations  int               `json:"evaluations"`
	SubRuns      int               `json:"sub_runs"`
	NonTrivial   int               `json:"non_trivial"`
	Fingerprints []uint64          `json:"fingerprints"` // hashes of non-trivial fingerprints
	Probes       map[string]int    `json:"probes"`
	Fired        map[string]int    `json:"fired"`
	IOSteps      int64             `json:"io_steps"`
	Restarts     int64             `json:"restarts"`
	Ops          int64             `json:"ops"`
	OKOps        int64             `json:"ok_ops"`
	SimNs        int64             `json:"sim_ns"`
	StateHashes  []uint64          `json:"state_hashes"` // capped sample of distinct model states
	Interleave   []uint64          `json:"interleavings"`
	Steered      int               `json:"steered"`
	Unsteered    int               `json:"unsteered"`
	KnownHits    map[string]int    `json:"known_hits"` // signature -> count
	Samples      []*trace.Trace    `json:"samples"`
	Failures     []Failure         `json:"failures"`
	Infra        []string          `json:"infra"`
	WallS        float64           `json:"wall_s"`
	Done         bool              `json:"done"`     // the segment ran to the end of its share
	NextIdx      int               `json:"next_idx"` // absolute index of the run in progress / next to run
	FirstFP      map[string]string `json:"-"`
}
