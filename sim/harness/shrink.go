package harness

import (
	"github.com/scigolib/hdf5/verifsim/trace"
)

// hasSig reports whether executing t reproduces a violation with signature sig.
func hasSig(p *Prop, t *trace.Trace, sig, dir string) bool {
	res := SafeExec(p, t, dir)
	if res.Infra != "" {
		return false
	}
	for _, v := range res.Violations {
		if v.Signature() == sig {
			return true
		}
	}
	return false
}

// Shrink minimises t by delta debugging over the explicit trace while the
// same violation signature persists. Returns the minimised trace and the
// number of executions spent.
func Shrink(p *Prop, t *trace.Trace, sig, dir string) (*trace.Trace, int) {
	budget := p.MaxShrinkExecs
	if budget == 0 {
		budget = 400
	}
	execs := 0
	try := func(c *trace.Trace) bool {
		if execs >= budget {
			return false
		}
		execs++
		TouchProgress()
		return hasSig(p, c, sig, dir)
	}
	cur := t.Clone()

	// 1. drop faults one at a time
	for i := len(cur.Faults) - 1; i >= 0; i-- {
		if p.KeepLastFault && len(cur.Faults) == 1 {
			break
		}
		c := cur.Clone()
		c.Faults = append(c.Faults[:i:i], c.Faults[i+1:]...)
		if try(c) {
			cur = c
		}
	}
	// 2. drop whole tasks (E4)
	for i := len(cur.Tasks) - 1; i >= 0 && len(cur.Tasks) > 1; i-- {
		c := cur.Clone()
		c.Tasks = append(c.Tasks[:i:i], c.Tasks[i+1:]...)
		if try(c) {
			cur = c
		}
	}
	// 3. ddmin over ops: remove blocks of decreasing size
	cur.Ops = shrinkOps(cur, cur.Ops, func(ops []trace.Op) bool {
		c := cur.Clone()
		c.Ops = ops
		return try(c)
	})
	for ti := range cur.Tasks {
		ti := ti
		cur.Tasks[ti].Script = shrinkOps(cur, cur.Tasks[ti].Script, func(ops []trace.Op) bool {
			c := cur.Clone()
			c.Tasks[ti].Script = ops
			return try(c)
		})
		// zero the delays
		c := cur.Clone()
		c.Tasks[ti].Delays = nil
		if len(cur.Tasks[ti].Delays) > 0 && try(c) {
			cur = c
		} else {
			// try zeroing individual delays from the back
			for di := len(cur.Tasks[ti].Delays) - 1; di >= 0 && execs < budget; di-- {
				if cur.Tasks[ti].Delays[di] == 0 {
					continue
				}
				c := cur.Clone()
				c.Tasks[ti].Delays[di] = 0
				if try(c) {
					cur = c
				}
			}
		}
	}
	// 4. per-op simplification
	if p.Simplify != nil {
		changed := true
		for changed && execs < budget {
			changed = false
			for i := 0; i < len(cur.Ops) && execs < budget; i++ {
				for _, c := range p.Simplify(cur, i) {
					if try(c) {
						cur = c
						changed = true
						break
					}
				}
			}
		}
	}
	// 5. simplify config
	if cur.Config.SB != 2 {
		c := cur.Clone()
		c.Config.SB = 2
		if try(c) {
			cur = c
		}
	}
	return cur, execs
}

func shrinkOps(_ *trace.Trace, ops []trace.Op, ok func([]trace.Op) bool) []trace.Op {
	n := len(ops)
	if n == 0 {
		return ops
	}
	for block := n / 2; block >= 1; block /= 2 {
		for start := len(ops) - block; start >= 0; start -= block {
			if start+block > len(ops) {
				continue
			}
			cand := append(append([]trace.Op{}, ops[:start]...), ops[start+block:]...)
			if ok(cand) {
				ops = cand
			}
		}
	}
	return ops
}
