package harness

import (
	"encoding/json"
	"fmt"
	"hash/fnv"
	"os"
	"regexp"
	"sort"
	"strconv"
	"time"

	"github.com/scigolib/hdf5/verifsim/rng"
	"github.com/scigolib/hdf5/verifsim/trace"
)

// WorkerArgs parameterise one worker process.
type WorkerArgs struct {
	Tier     string
	Seed     uint64
	Worker   int
	Workers  int
	Known    []string // regexps of known-finding signatures
	Dir      string   // scratch dir
	Deadline time.Duration
	Runs     int // override of total runs (0 = prop default)
	// FromIdx: first absolute run index this (restarted) worker segment handles.
	FromIdx int
	// SkipSub: sub-runs of run FromIdx already executed by the dead segment.
	SkipSub int
	// Progress: file in which the run about to start is announced, so that a
	// worker killed by a fatal runtime error (out of memory, stack overflow) or
	// by the hang watchdog can be attributed to the trace it was executing.
	Progress string
	// Emit prints a (partial or final) summary line.
	Emit func(*Summary)
}

// progress announcement state of this process
var (
	progressPath  string
	progressTrace *trace.Trace
	progressIdx   int
)

// Progress is the content of the announcement file.
type Progress struct {
	Idx   int          `json:"idx"`
	Trace *trace.Trace `json:"trace"`
	Fault *trace.Fault `json:"fault,omitempty"`
	Sub   int          `json:"sub"` // ordinal of the announced sub-run within the run
}

var (
	progressSub int
	skipSub     int
)

// TakeSkipSub returns, once, the number of sub-runs of the first run of this
// worker segment that were already executed by the previous (dead) segment.
func TakeSkipSub() int {
	n := skipSub
	skipSub = 0
	return n
}

// TouchProgress tells the hang watchdog that this process is alive (used
// between the executions of the shrinker, which announces no traces).
func TouchProgress() {
	if progressPath != "" {
		now := time.Now()
		_ = os.Chtimes(progressPath, now, now)
	}
}

func writeProgress(f *trace.Fault) {
	if progressPath == "" {
		return
	}
	b, _ := json.Marshal(Progress{Idx: progressIdx, Trace: progressTrace, Fault: f, Sub: progressSub})
	tmp := progressPath + ".tmp"
	if os.WriteFile(tmp, b, 0o644) == nil {
		_ = os.Rename(tmp, progressPath)
	}
}

// AnnounceFault is called by fault-enumeration engines before each faulted
// sub-run so that a process death is attributed to the exact fault.
func AnnounceFault(f trace.Fault) {
	progressSub++
	if progressPath != "" {
		writeProgress(&f)
	}
}

func hash64(s string) uint64 {
	h := fnv.New64a()
	h.Write([]byte(s))
	return h.Sum64()
}

// GenTrace derives the idx-th trace of a batch from the seed.
func GenTrace(p *Prop, seed uint64, tier string, idx int) *trace.Trace {
	r := rng.New(seed, p.ID, tier, "run", strconv.Itoa(idx))
	share := p.UnsteeredShare
	if share == 0 {
		share = 0.2
	}
	steer := r.Float64() >= share
	t := p.Gen(r, tier, steer, idx)
	t.Property = p.ID
	t.Engine = p.Engine
	t.Seed = seed
	t.Steered = steer
	return t
}

// SafeExec runs p.Exec and converts a harness panic into infrastructure trouble.
func SafeExec(p *Prop, t *trace.Trace, dir string) (res *RunResult) {
	defer func() {
		if r := recover(); r != nil {
			res = &RunResult{Infra: fmt.Sprintf("harness panic: %v", r)}
		}
	}()
	return p.Exec(t, dir)
}

// RunWorker executes this worker's share of the batch.
func RunWorker(p *Prop, a WorkerArgs) *Summary {
	start := time.Now()
	s := &Summary{Property: p.ID, Worker: a.Worker, Probes: map[string]int{}, Fired: map[string]int{}, KnownHits: map[string]int{}}
	var known []*regexp.Regexp
	for _, k := range a.Known {
		if re, err := regexp.Compile("^(?:" + k + ")$"); err == nil {
			known = append(known, re)
		}
	}
	total := p.Runs[a.Tier]
	if a.Runs > 0 {
		total = a.Runs
	}
	fps := map[uint64]bool{}
	states := map[uint64]bool{}
	inter := map[uint64]bool{}
	seenSig := map[string]*Failure{}
	const stateCap = 50000
	progressPath = a.Progress
	lastEmit := time.Now()
	first := a.Worker
	for first < a.FromIdx {
		first += a.Workers
	}
	for idx := first; idx < total; idx += a.Workers {
		s.NextIdx = idx
		if a.Emit != nil && time.Since(lastEmit) > 2*time.Second {
			lastEmit = time.Now()
			s.WallS = time.Since(start).Seconds()
			// periodic (crash-recovery) snapshots carry the counters and failures only;
			// the large hash sets are sent with the final summary
			a.Emit(snapshot(s, nil, nil, nil, seenSig))
		}
		if a.Deadline > 0 && time.Since(start) > a.Deadline {
			s.Infra = append(s.Infra, fmt.Sprintf("soft deadline reached after %d of %d runs", s.Evaluations, (total-a.Worker+a.Workers-1)/a.Workers))
			break
		}
		t := GenTrace(p, a.Seed, a.Tier, idx)
		progressTrace, progressIdx, progressSub = t, idx, 0
		if idx == a.FromIdx {
			skipSub = a.SkipSub
			progressSub = a.SkipSub
		} else {
			skipSub = 0
		}
		writeProgress(nil)
		res := SafeExec(p, t, a.Dir)
		if res.Infra != "" {
			s.Infra = append(s.Infra, fmt.Sprintf("run %d: %s", idx, res.Infra))
			continue
		}
		s.Evaluations++
		s.SubRuns += res.SubRuns
		if t.Steered {
			s.Steered++
		} else {
			s.Unsteered++
		}
		if res.NonTrivial {
			s.NonTrivial++
			fps[hash64(res.Fingerprint)] = true
		}
		for k, v := range res.Probes {
			s.Probes[k] += v
		}
		for k, v := range res.Fired {
			s.Fired[k] += v
		}
		s.IOSteps += int64(res.IOSteps)
		s.Restarts += int64(res.Restarts)
		s.Ops += int64(res.Ops)
		s.OKOps += int64(res.OKOps)
		s.SimNs += res.SimNs
		if len(states) < stateCap {
			for _, h := range res.States {
				states[h] = true
			}
		}
		if res.Interleaving != 0 {
			inter[res.Interleaving] = true
		}
		if len(s.Samples) < 2 && res.NonTrivial && len(res.Violations) == 0 {
			s.Samples = append(s.Samples, t)
		}
		// failures: one record per distinct signature
		sigs := map[string]trace.Violation{}
		for _, v := range res.Violations {
			if _, ok := sigs[v.Signature()]; !ok {
				sigs[v.Signature()] = v
			}
		}
		names := make([]string, 0, len(sigs))
		for k := range sigs {
			names = append(names, k)
		}
		sort.Strings(names)
		for _, sig := range names {
			v := sigs[sig]
			isKnown := false
			for _, re := range known {
				if re.MatchString(sig) {
					isKnown = true
					break
				}
			}
			if isKnown {
				s.KnownHits[sig]++
				continue
			}
			if f := seenSig[sig]; f != nil {
				f.Count++
				continue
			}
			if len(seenSig) >= 6 {
				continue // bounded effort per worker; the batch already fails
			}
			f := &Failure{Signature: sig, Detail: v.Detail, Seed: a.Seed, RunIndex: idx, OrigOps: len(t.Ops), Count: 1}
			start := t
			if nt := res.Narrow[sig]; nt != nil {
				start = nt
			}
			min, execs := Shrink(p, start, sig, a.Dir)
			f.Trace, f.Execs, f.MinOps = min, execs, len(min.Ops)
			seenSig[sig] = f
		}
	}
	s.NextIdx = total
	s.Done = true
	s.WallS = time.Since(start).Seconds()
	return snapshot(s, fps, states, inter, seenSig)
}

// snapshot fills the set-valued fields of a copy of s.
func snapshot(s *Summary, fps, states, inter map[uint64]bool, seenSig map[string]*Failure) *Summary {
	c := *s
	c.Fingerprints, c.StateHashes, c.Interleave, c.Failures = nil, nil, nil, nil
	for h := range fps {
		c.Fingerprints = append(c.Fingerprints, h)
	}
	for h := range states {
		c.StateHashes = append(c.StateHashes, h)
	}
	for h := range inter {
		c.Interleave = append(c.Interleave, h)
	}
	sigNames := make([]string, 0, len(seenSig))
	for k := range seenSig {
		sigNames = append(sigNames, k)
	}
	sort.Strings(sigNames)
	for _, k := range sigNames {
		c.Failures = append(c.Failures, *seenSig[k])
	}
	return &c
}

// ScratchDir creates a private scratch directory on tmpfs.
func ScratchDir(tag string) string {
	base := "/dev/shm"
	if st, err := os.Stat(base); err != nil || !st.IsDir() {
		base = "/var/tmp"
	}
	d, err := os.MkdirTemp(base, "verif-"+tag+"-")
	if err != nil {
		d, _ = os.MkdirTemp("/var/tmp", "verif-"+tag+"-")
	}
	return d
}
