// Package disk is the simulated disk: an interposer over real files (on tmpfs)
// that owns every I/O call the library makes through the verif seams (H3: the
// writer's file handle, H4: the reader's file handle) plus the deterministic
// buffer pool (H1). It numbers I/O steps, records a log, and injects faults
// from an explicit plan.
package disk

import (
	"errors"
	"fmt"
	"io"
	"os"
	"runtime"
	"strings"
	"syscall"

	hdf5 "github.com/scigolib/hdf5"
	"github.com/scigolib/hdf5/internal/utils"
	"github.com/scigolib/hdf5/internal/writer"
	"github.com/scigolib/hdf5/verifsim/trace"
)

// ErrInjected is the root of every injected I/O error.
var ErrInjected = fmt.Errorf("verifsim: injected I/O fault: %w", syscall.EIO)

// ErrBudget is returned when the read-step budget is exhausted (C07 hang detection).
var ErrBudget = errors.New("verifsim: I/O step budget exhausted")

// LogEntry is one intercepted I/O call.
type LogEntry struct {
	Step   int
	Handle int    // handle number (order of opening)
	Side   string // "w" writer handle, "r" reader handle
	Op     string // read|write|sync|close
	Off    int64
	Len    int
	Fn     string // innermost /repo function above the seam (when attribution is on)
	OpIdx  int    // index of the trace operation during which the call happened (-1: file creation)
	Fault  string // fault fired at this step, if any
	Err    bool
}

// Sim is one simulated disk. Not safe for concurrent use (E1-E3 are
// single-threaded; E4 uses one Sim per task).
type Sim struct {
	Step        int
	Plan        map[int]trace.Fault // step -> fault
	Log         []LogEntry
	KeepLog     bool
	Attribute   bool // record calling /repo function for writes
	Fired       map[string]int
	FiredSteps  []int
	FiredOps    []int    // CurOp at the time each fault fired
	FiredFns    []string // attributed /repo function of each faulted call
	ReadBudget  int      // 0 = unlimited; counts all read steps
	Reads       int
	Writes      int
	Syncs       int
	handles     int
	BudgetHit   bool
	OnIO        func(side, op string) // E4 yield hook
	CurOp       int                   // set by the executor: current trace op index
	OpenHandles int
}

func NewSim() *Sim {
	return &Sim{Plan: map[int]trace.Fault{}, Fired: map[string]int{}}
}

// SetFaults installs the step-indexed faults of a trace.
func (s *Sim) SetFaults(fs []trace.Fault) {
	s.Plan = map[int]trace.Fault{}
	for _, f := range fs {
		switch f.Kind {
		case "write_eio", "write_torn", "read_eio", "sync_eio", "io_eio":
			s.Plan[f.AtStep] = f
		}
	}
}

var current *Sim

// Install makes s the simulator that wraps every file opened from now on and
// installs the seam hooks. Install(nil) removes the hooks.
func Install(s *Sim) {
	current = s
	if s == nil {
		writer.VerifWrapFile = nil
		hdf5.VerifWrapReadFile = nil
		return
	}
	writer.VerifWrapFile = func(f *os.File, name string) writer.VerifFile {
		c := current
		if c == nil {
			return f
		}
		c.handles++
		c.OpenHandles++
		return &File{f: f, sim: c, side: "w", id: c.handles}
	}
	hdf5.VerifWrapReadFile = func(f *os.File, name string) hdf5.VerifReadFile {
		c := current
		if c == nil {
			return f
		}
		c.handles++
		c.OpenHandles++
		return &File{f: f, sim: c, side: "r", id: c.handles}
	}
}

// File wraps a real *os.File.
type File struct {
	f    *os.File
	sim  *Sim
	side string
	id   int
}

func (h *File) Underlying() *os.File { return h.f }

func (h *File) Stat() (os.FileInfo, error) { return h.f.Stat() }

func (h *File) Seek(off int64, whence int) (int64, error) { return h.f.Seek(off, whence) }

func (s *Sim) next(side, op string, off int64, n int, h *File) (*LogEntry, *trace.Fault) {
	s.Step++
	if s.OnIO != nil {
		s.OnIO(side, op)
	}
	var e *LogEntry
	if s.KeepLog {
		s.Log = append(s.Log, LogEntry{Step: s.Step, Handle: h.id, Side: side, Op: op, Off: off, Len: n, OpIdx: s.CurOp})
		e = &s.Log[len(s.Log)-1]
		if s.Attribute && op == "write" {
			e.Fn = callerFn()
		}
	}
	if f, ok := s.Plan[s.Step]; ok {
		return e, &f
	}
	return e, nil
}

func (s *Sim) fire(kind string, e *LogEntry) {
	s.Fired[kind]++
	s.FiredSteps = append(s.FiredSteps, s.Step)
	s.FiredOps = append(s.FiredOps, s.CurOp)
	s.FiredFns = append(s.FiredFns, callerFn())
	if e != nil {
		e.Fault = kind
		e.Err = true
	}
}

func (h *File) ReadAt(p []byte, off int64) (int, error) {
	s := h.sim
	s.Reads++
	if s.ReadBudget > 0 && s.Reads > s.ReadBudget {
		s.BudgetHit = true
		return 0, ErrBudget
	}
	e, f := s.next(h.side, "read", off, len(p), h)
	if f != nil && (f.Kind == "read_eio" || f.Kind == "io_eio") {
		s.fire("read_eio", e)
		return 0, ErrInjected
	}
	return h.f.ReadAt(p, off)
}

func (h *File) WriteAt(p []byte, off int64) (int, error) {
	s := h.sim
	s.Writes++
	e, f := s.next(h.side, "write", off, len(p), h)
	if f != nil {
		switch f.Kind {
		case "write_eio", "io_eio":
			s.fire("write_eio", e)
			return 0, ErrInjected
		case "write_torn":
			keep := f.Keep
			if keep > len(p) {
				keep = len(p)
			}
			if keep < 0 {
				keep = 0
			}
			n := 0
			if keep > 0 {
				n, _ = h.f.WriteAt(p[:keep], off)
			}
			s.fire("write_torn", e)
			return n, ErrInjected
		}
	}
	return h.f.WriteAt(p, off)
}

func (h *File) Sync() error {
	s := h.sim
	s.Syncs++
	e, f := s.next(h.side, "sync", 0, 0, h)
	if f != nil && (f.Kind == "sync_eio" || f.Kind == "io_eio") {
		s.fire("sync_eio", e)
		return ErrInjected
	}
	// tmpfs: a real Sync is a no-op; skip the syscall for speed.
	return nil
}

func (h *File) Close() error {
	h.sim.OpenHandles--
	return h.f.Close()
}

var _ io.ReaderAt = (*File)(nil)

// callerFn returns the innermost library function (outside internal/writer's
// FileWriter methods and outside the harness) on the current call stack.
func callerFn() string {
	var pcs [32]uintptr
	n := runtime.Callers(4, pcs[:])
	frames := runtime.CallersFrames(pcs[:n])
	for {
		fr, more := frames.Next()
		fn := fr.Function
		if strings.HasPrefix(fn, "github.com/scigolib/hdf5") &&
			!strings.HasPrefix(fn, "github.com/scigolib/hdf5/verifsim") &&
			!strings.Contains(fn, "internal/writer.(*FileWriter)") && !strings.Contains(fn, ".(*Verif") {
			return strings.TrimPrefix(fn, "github.com/scigolib/hdf5")
		}
		if !more {
			break
		}
	}
	return "?"
}

// ---------------------------------------------------------------------------
// Deterministic buffer pool (H1).

// Pool is a deterministic LIFO replacement for sync.Pool.
type Pool struct {
	free   [][]byte
	Mode   string // plain|poison|fresh
	Gets   int
	Reuses int
}

const poisonByte = 0xDB

func InstallPool(p *Pool) {
	if p == nil {
		utils.VerifPoolGet = nil
		utils.VerifPoolPut = nil
		return
	}
	utils.VerifPoolGet = p.Get
	utils.VerifPoolPut = p.Put
}

func (p *Pool) Get(size int) []byte {
	p.Gets++
	var buf []byte
	if p.Mode != "fresh" && len(p.free) > 0 {
		buf = p.free[len(p.free)-1]
		p.free = p.free[:len(p.free)-1]
		p.Reuses++
	} else {
		buf = make([]byte, 0, 4096)
	}
	if cap(buf) < size {
		return make([]byte, size, size*2)
	}
	return buf[:size]
}

func (p *Pool) Put(buf []byte) {
	if p.Mode == "poison" {
		b := buf[:cap(buf)]
		for i := range b {
			b[i] = poisonByte
		}
	}
	if p.Mode == "fresh" {
		return
	}
	if len(p.free) < 64 {
		p.free = append(p.free, buf[:0])
	}
}
