package model

import (
	"encoding/binary"
	"math"

	"github.com/scigolib/hdf5/verifsim/trace"
)

// Attr is the model's view of one attribute.
type Attr struct {
	Name   string
	Kind   string // value kind as written
	Class  string // integer|float|string
	Size   int
	Signed bool
	Dims   []uint64
	Data   []byte
}

// GoValue builds the Go value passed to WriteAttribute. ok=false if the kind
// is one the model has no encoding for (bad kinds used by C16).
func GoValue(v *trace.Value) (interface{}, bool) {
	get := func(i int) int64 {
		if i < len(v.I) {
			return v.I[i]
		}
		return 0
	}
	getf := func(i int) uint64 {
		if i < len(v.F) {
			return v.F[i]
		}
		return 0
	}
	switch v.Kind {
	case "int8":
		return int8(get(0)), true
	case "int16":
		return int16(get(0)), true
	case "int32":
		return int32(get(0)), true
	case "int64":
		return int64(get(0)), true
	case "uint8":
		return uint8(get(0)), true
	case "uint16":
		return uint16(get(0)), true
	case "uint32":
		return uint32(get(0)), true
	case "uint64":
		return uint64(get(0)), true
	case "float32":
		return math.Float32frombits(uint32(getf(0))), true
	case "float64":
		return math.Float64frombits(getf(0)), true
	case "string":
		return v.S, true
	case "[]int32":
		o := make([]int32, len(v.I))
		for i := range o {
			o[i] = int32(v.I[i])
		}
		return o, true
	case "[]int64":
		o := make([]int64, len(v.I))
		copy(o, v.I)
		return o, true
	case "[]float32":
		o := make([]float32, len(v.F))
		for i := range o {
			o[i] = math.Float32frombits(uint32(v.F[i]))
		}
		return o, true
	case "[]float64":
		o := make([]float64, len(v.F))
		for i := range o {
			o[i] = math.Float64frombits(v.F[i])
		}
		return o, true
	// kinds the write API is expected to reject (C16)
	case "nil":
		return nil, false
	case "bool":
		return true, false
	case "[]string":
		return []string{v.S}, false
	case "struct":
		return struct{ A int }{1}, false
	case "emptyslice":
		return []int32{}, false
	case "map":
		return map[string]int{"a": 1}, false
	case "int":
		return int(get(0)), false
	}
	return nil, false
}

// MakeAttr computes the model's expectation for an attribute written with v.
func MakeAttr(name string, v *trace.Value) (*Attr, bool) {
	a := &Attr{Name: name, Kind: v.Kind}
	le := func(size int, x uint64) []byte {
		b := make([]byte, size)
		putLE(b, x)
		return b
	}
	get := func(i int) int64 {
		if i < len(v.I) {
			return v.I[i]
		}
		return 0
	}
	getf := func(i int) uint64 {
		if i < len(v.F) {
			return v.F[i]
		}
		return 0
	}
	switch v.Kind {
	case "int8", "int16", "int32", "int64":
		a.Class, a.Signed = "integer", true
		a.Size = map[string]int{"int8": 1, "int16": 2, "int32": 4, "int64": 8}[v.Kind]
		a.Dims = []uint64{1}
		a.Data = le(a.Size, uint64(get(0)))
	case "uint8", "uint16", "uint32", "uint64":
		a.Class = "integer"
		a.Size = map[string]int{"uint8": 1, "uint16": 2, "uint32": 4, "uint64": 8}[v.Kind]
		a.Dims = []uint64{1}
		a.Data = le(a.Size, uint64(get(0)))
	case "float32":
		a.Class, a.Size, a.Dims = "float", 4, []uint64{1}
		a.Data = le(4, getf(0))
	case "float64":
		a.Class, a.Size, a.Dims = "float", 8, []uint64{1}
		a.Data = le(8, getf(0))
	case "string":
		a.Class, a.Size, a.Dims = "string", len(v.S)+1, []uint64{1}
		a.Data = append([]byte(v.S), 0)
	case "[]int32":
		a.Class, a.Size, a.Signed, a.Dims = "integer", 4, true, []uint64{uint64(len(v.I))}
		a.Data = make([]byte, 4*len(v.I))
		for i, x := range v.I {
			binary.LittleEndian.PutUint32(a.Data[i*4:], uint32(x))
		}
	case "[]int64":
		a.Class, a.Size, a.Signed, a.Dims = "integer", 8, true, []uint64{uint64(len(v.I))}
		a.Data = make([]byte, 8*len(v.I))
		for i, x := range v.I {
			binary.LittleEndian.PutUint64(a.Data[i*8:], uint64(x))
		}
	case "[]float32":
		a.Class, a.Size, a.Dims = "float", 4, []uint64{uint64(len(v.F))}
		a.Data = make([]byte, 4*len(v.F))
		for i, x := range v.F {
			binary.LittleEndian.PutUint32(a.Data[i*4:], uint32(x))
		}
	case "[]float64":
		a.Class, a.Size, a.Dims = "float", 8, []uint64{uint64(len(v.F))}
		a.Data = make([]byte, 8*len(v.F))
		for i, x := range v.F {
			binary.LittleEndian.PutUint64(a.Data[i*8:], x)
		}
	default:
		return nil, false
	}
	return a, true
}
