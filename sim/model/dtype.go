// Package model is the executable reference model of an HDF5 file as seen
// through the library's API: a tree of groups/datasets/links with attributes.
// It knows nothing about addresses, headers, heaps or capacities.
package model

import (
	"encoding/binary"
	"fmt"
	"math"

	"github.com/scigolib/hdf5/verifsim/trace"
)

// DType describes a dataset element type as the model sees it.
type DType struct {
	Name     string // hdf5.Datatype constant name
	Class    string // integer|float|string|array|enum|reference|opaque|compound|vlen
	Size     int    // element size in bytes as stored in the dataset
	Signed   bool   // for integer/enum/array base
	BaseSize int    // base element size (array/enum/vlen)
	BaseKind string // int|uint|float (array/enum/vlen base), "string" for VLenString
}

var basic = map[string]DType{
	"Int8":    {Class: "integer", Size: 1, Signed: true, BaseSize: 1, BaseKind: "int"},
	"Int16":   {Class: "integer", Size: 2, Signed: true, BaseSize: 2, BaseKind: "int"},
	"Int32":   {Class: "integer", Size: 4, Signed: true, BaseSize: 4, BaseKind: "int"},
	"Int64":   {Class: "integer", Size: 8, Signed: true, BaseSize: 8, BaseKind: "int"},
	"Uint8":   {Class: "integer", Size: 1, BaseSize: 1, BaseKind: "uint"},
	"Uint16":  {Class: "integer", Size: 2, BaseSize: 2, BaseKind: "uint"},
	"Uint32":  {Class: "integer", Size: 4, BaseSize: 4, BaseKind: "uint"},
	"Uint64":  {Class: "integer", Size: 8, BaseSize: 8, BaseKind: "uint"},
	"Float32": {Class: "float", Size: 4, BaseSize: 4, BaseKind: "float"},
	"Float64": {Class: "float", Size: 8, BaseSize: 8, BaseKind: "float"},
}

// BasicNames lists the scalar numeric type names.
var BasicNames = []string{"Int8", "Int16", "Int32", "Int64", "Uint8", "Uint16", "Uint32", "Uint64", "Float32", "Float64"}

// ResolveDType computes the model's view of the dataset element type of a
// create_dataset op. ok=false means the op does not describe a valid type (the
// model then has no expectation about it).
func ResolveDType(op *trace.Op) (DType, bool) {
	n := op.DType
	if b, ok := basic[n]; ok {
		b.Name = n
		return b, true
	}
	switch {
	case n == "String":
		if op.StrSize == 0 {
			return DType{}, false
		}
		return DType{Name: n, Class: "string", Size: int(op.StrSize), BaseSize: 1, BaseKind: "string"}, true
	case len(n) > 5 && n[:5] == "Array":
		b, ok := basic[n[5:]]
		if !ok || len(op.ArrDims) == 0 {
			return DType{}, false
		}
		cnt := 1
		for _, d := range op.ArrDims {
			if d == 0 {
				return DType{}, false
			}
			cnt *= int(d)
		}
		return DType{Name: n, Class: "array", Size: cnt * b.Size, Signed: b.Signed, BaseSize: b.Size, BaseKind: b.BaseKind}, true
	case len(n) > 4 && n[:4] == "Enum":
		b, ok := basic[n[4:]]
		if !ok || len(op.EnumN) == 0 || len(op.EnumN) != len(op.EnumV) {
			return DType{}, false
		}
		return DType{Name: n, Class: "enum", Size: b.Size, Signed: b.Signed, BaseSize: b.Size, BaseKind: b.BaseKind}, true
	case n == "ObjectReference":
		return DType{Name: n, Class: "reference", Size: 8, BaseSize: 8, BaseKind: "uint"}, true
	case n == "RegionReference":
		return DType{Name: n, Class: "reference", Size: 12, BaseSize: 12, BaseKind: "raw"}, true
	case n == "Opaque":
		if op.OpqSize == 0 || op.OpqTag == "" {
			return DType{}, false
		}
		return DType{Name: n, Class: "opaque", Size: int(op.OpqSize), BaseSize: 1, BaseKind: "raw"}, true
	case n == "VLenString":
		return DType{Name: n, Class: "vlen", Size: 16, BaseSize: 1, BaseKind: "string"}, true
	case len(n) > 4 && n[:4] == "VLen":
		b, ok := basic[n[4:]]
		if !ok {
			return DType{}, false
		}
		return DType{Name: n, Class: "vlen", Size: 16, Signed: b.Signed, BaseSize: b.Size, BaseKind: b.BaseKind}, true
	case n == "Compound":
		sz := 0
		for _, f := range op.Fields {
			b, ok := basic[kindToName(f.Kind)]
			if !ok {
				return DType{}, false
			}
			if e := int(f.Offset) + b.Size; e > sz {
				sz = e
			}
		}
		if sz == 0 {
			return DType{}, false
		}
		return DType{Name: n, Class: "compound", Size: sz, BaseKind: "raw"}, true
	}
	return DType{}, false
}

func kindToName(k string) string {
	switch k {
	case "int8":
		return "Int8"
	case "int16":
		return "Int16"
	case "int32":
		return "Int32"
	case "int64":
		return "Int64"
	case "uint8":
		return "Uint8"
	case "uint16":
		return "Uint16"
	case "uint32":
		return "Uint32"
	case "uint64":
		return "Uint64"
	case "float32":
		return "Float32"
	case "float64":
		return "Float64"
	}
	return k
}

// FieldBasic returns the basic DType of a compound field kind.
func FieldBasic(kind string) (DType, bool) {
	b, ok := basic[kindToName(kind)]
	return b, ok
}

// splitmix64 is the data generator's PRNG (independent from the trace
// generator's stream; the seed is stored in the trace).
type splitmix struct{ s uint64 }

func (r *splitmix) next() uint64 {
	r.s += 0x9E3779B97F4A7C15
	z := r.s
	z = (z ^ (z >> 30)) * 0xBF58476D1CE4E5B9
	z = (z ^ (z >> 27)) * 0x94D049BB133111EB
	return z ^ (z >> 31)
}

var extremes64 = []uint64{
	0, 1, 0x7F, 0x80, 0xFF, 0x7FFF, 0x8000, 0xFFFF, 0x7FFFFFFF, 0x80000000, 0xFFFFFFFF,
	0x7FFFFFFFFFFFFFFF, 0x8000000000000000, 0xFFFFFFFFFFFFFFFF, 0x0020000000000001, 0xFFDFFFFFFFFFFFFF,
	3000000000, 4000000000, 0xEE6B2800,
}

var extremeF64 = []uint64{
	0, 0x8000000000000000, 0x3FF0000000000000, 0xBFF0000000000000, 0x7FF0000000000000, 0xFFF0000000000000,
	0x7FF8000000000000, 0x7FF8000000000001, 0xFFF8DEADBEEF0001, 0x7FF0000000000001, 0x0000000000000001,
	0x7FEFFFFFFFFFFFFF, 0x0010000000000000, 0x400921FB54442D18,
}

var extremeF32 = []uint32{
	0, 0x80000000, 0x3F800000, 0xBF800000, 0x7F800000, 0xFF800000, 0x7FC00000, 0x7FC00001, 0xFFC0BEEF,
	0x7F800001, 0x00000001, 0x7F7FFFFF, 0x00800000, 0x40490FDB,
}

// GenRaw produces count elements of raw little-endian bytes for dt according
// to the data spec. For strings the bytes are NUL-free text, NUL-padded.
func GenRaw(dt DType, count int, d *trace.Data) []byte {
	if d != nil && d.Hex != "" {
		b, _ := hexDecode(d.Hex)
		return b
	}
	gen, seed := "ramp", uint64(1)
	if d != nil {
		if d.Gen != "" {
			gen = d.Gen
		}
		seed = d.Seed
	}
	r := &splitmix{s: seed}
	out := make([]byte, count*dt.Size)
	switch dt.Class {
	case "string":
		for i := 0; i < count; i++ {
			el := out[i*dt.Size : (i+1)*dt.Size]
			var n int
			switch gen {
			case "zero":
				n = 0
			case "extreme":
				n = dt.Size // full-length, no terminator
				if i%3 == 1 {
					n = 0
				} else if i%3 == 2 && dt.Size > 1 {
					n = dt.Size - 1
				}
			default:
				n = int(r.next() % uint64(dt.Size+1))
			}
			for j := 0; j < n; j++ {
				if gen == "rand" || gen == "extreme" {
					// printable ASCII plus some UTF-8 lead/continuation bytes
					c := byte(0x21 + r.next()%0x5E)
					if r.next()%11 == 0 {
						c = byte(0x80 + r.next()%0x7F)
					}
					el[j] = c
				} else {
					el[j] = byte('a' + (i+j)%26)
				}
			}
		}
		return out
	case "opaque", "compound", "reference":
		if dt.Class == "compound" || dt.Class == "opaque" || dt.BaseKind == "raw" {
			for i := range out {
				switch gen {
				case "zero":
				case "ramp":
					out[i] = byte(i + int(seed))
				default:
					out[i] = byte(r.next())
				}
			}
			return out
		}
	}
	// numeric base elements
	bs := dt.BaseSize
	n := len(out) / bs
	for i := 0; i < n; i++ {
		var v uint64
		isFloat := dt.BaseKind == "float"
		switch gen {
		case "zero":
			v = 0
		case "const":
			v = seed
			if isFloat {
				v = floatBits(bs, float64(seed%1000)+0.5)
			}
		case "ramp":
			if isFloat {
				v = floatBits(bs, float64(i+1)+float64(seed%7)*0.25)
			} else {
				v = uint64(i+1) + seed%5
			}
		case "extreme":
			if isFloat {
				if bs == 4 {
					v = uint64(extremeF32[(i+int(seed))%len(extremeF32)])
				} else {
					v = extremeF64[(i+int(seed))%len(extremeF64)]
				}
			} else {
				v = extremes64[(i+int(seed))%len(extremes64)]
			}
		default: // rand
			v = r.next()
		}
		putLE(out[i*bs:(i+1)*bs], v)
	}
	return out
}

func floatBits(size int, f float64) uint64 {
	if size == 4 {
		return uint64(math.Float32bits(float32(f)))
	}
	return math.Float64bits(f)
}

func putLE(b []byte, v uint64) {
	switch len(b) {
	case 1:
		b[0] = byte(v)
	case 2:
		binary.LittleEndian.PutUint16(b, uint16(v))
	case 4:
		binary.LittleEndian.PutUint32(b, uint32(v))
	case 8:
		binary.LittleEndian.PutUint64(b, v)
	default:
		for i := range b {
			b[i] = byte(v >> (8 * uint(i%8)))
		}
	}
}

func getLE(b []byte) uint64 {
	switch len(b) {
	case 1:
		return uint64(b[0])
	case 2:
		return uint64(binary.LittleEndian.Uint16(b))
	case 4:
		return uint64(binary.LittleEndian.Uint32(b))
	case 8:
		return binary.LittleEndian.Uint64(b)
	}
	return 0
}

// GoSlice converts raw element bytes into the Go slice the write API expects
// for dt ([]int32, []uint8, []float64, []string, []byte ...).
func GoSlice(dt DType, raw []byte) interface{} {
	switch dt.Class {
	case "string":
		n := len(raw) / dt.Size
		out := make([]string, n)
		for i := range out {
			el := raw[i*dt.Size : (i+1)*dt.Size]
			out[i] = string(trimNul(el))
		}
		return out
	case "opaque", "compound":
		return append([]byte(nil), raw...)
	}
	if dt.BaseKind == "raw" {
		return append([]byte(nil), raw...)
	}
	return NumSlice(dt.BaseKind, dt.BaseSize, raw)
}

// NumSlice builds a typed numeric Go slice from little-endian bytes.
func NumSlice(kind string, size int, raw []byte) interface{} {
	n := len(raw) / size
	switch kind + fmt.Sprint(size) {
	case "int1":
		o := make([]int8, n)
		for i := range o {
			o[i] = int8(raw[i])
		}
		return o
	case "uint1":
		return append([]uint8(nil), raw...)
	case "int2":
		o := make([]int16, n)
		for i := range o {
			o[i] = int16(binary.LittleEndian.Uint16(raw[i*2:]))
		}
		return o
	case "uint2":
		o := make([]uint16, n)
		for i := range o {
			o[i] = binary.LittleEndian.Uint16(raw[i*2:])
		}
		return o
	case "int4":
		o := make([]int32, n)
		for i := range o {
			o[i] = int32(binary.LittleEndian.Uint32(raw[i*4:]))
		}
		return o
	case "uint4":
		o := make([]uint32, n)
		for i := range o {
			o[i] = binary.LittleEndian.Uint32(raw[i*4:])
		}
		return o
	case "int8":
		o := make([]int64, n)
		for i := range o {
			o[i] = int64(binary.LittleEndian.Uint64(raw[i*8:]))
		}
		return o
	case "uint8":
		o := make([]uint64, n)
		for i := range o {
			o[i] = binary.LittleEndian.Uint64(raw[i*8:])
		}
		return o
	case "float4":
		o := make([]float32, n)
		for i := range o {
			o[i] = math.Float32frombits(binary.LittleEndian.Uint32(raw[i*4:]))
		}
		return o
	case "float8":
		o := make([]float64, n)
		for i := range o {
			o[i] = math.Float64frombits(binary.LittleEndian.Uint64(raw[i*8:]))
		}
		return o
	}
	return nil
}

func trimNul(b []byte) []byte {
	for i, c := range b {
		if c == 0 {
			return b[:i]
		}
	}
	return b
}

// WidenToFloat64 applies the read API's documented widening to float64 to raw
// element bytes of a scalar numeric type (the model's expectation of Read()).
func WidenToFloat64(dt DType, raw []byte) []float64 {
	n := len(raw) / dt.Size
	out := make([]float64, n)
	for i := range out {
		v := getLE(raw[i*dt.Size : (i+1)*dt.Size])
		switch {
		case dt.BaseKind == "float" && dt.Size == 4:
			out[i] = float64(math.Float32frombits(uint32(v)))
		case dt.BaseKind == "float":
			out[i] = math.Float64frombits(v)
		case dt.Signed:
			sh := uint(64 - 8*dt.Size)
			out[i] = float64(int64(v<<sh) >> sh)
		default:
			out[i] = float64(v)
		}
	}
	return out
}

func hexDecode(s string) ([]byte, error) {
	if len(s)%2 != 0 {
		return nil, fmt.Errorf("odd hex")
	}
	out := make([]byte, len(s)/2)
	for i := range out {
		var b byte
		for j := 0; j < 2; j++ {
			c := s[i*2+j]
			b <<= 4
			switch {
			case c >= '0' && c <= '9':
				b |= c - '0'
			case c >= 'a' && c <= 'f':
				b |= c - 'a' + 10
			case c >= 'A' && c <= 'F':
				b |= c - 'A' + 10
			default:
				return nil, fmt.Errorf("bad hex")
			}
		}
		out[i] = b
	}
	return out, nil
}
