package model

import (
	"fmt"
	"sort"
	"strings"

	"github.com/scigolib/hdf5/verifsim/trace"
)

// Dataset is the model's dataset state.
type Dataset struct {
	DT      DType
	Op      trace.Op // the creating op (for fingerprints)
	Dims    []uint64
	MaxDims []uint64
	Chunk   []uint64
	Filters []string
	Written bool
	// Shrunk: some dimension was reduced since the last full write.
	// Regrown: a dimension grew again after that (the regrown region must read as zero).
	Shrunk, Regrown bool
	Raw             []byte   // element bytes (non-vlen), row-major
	VLen            [][]byte // per-element payload (vlen)
}

// Node is a group, dataset or link object. Hard links share the *Node.
type Node struct {
	ID       int
	Kind     string // group|dataset|soft|ext
	Children map[string]*Node
	Order    []string
	DS       *Dataset
	Attrs    map[string]*Attr
	AOrder   []string
	Target   string // soft/ext target path
	File     string // ext file
	Dense    bool   // created by CreateDenseGroup/CreateGroupWithLinks
}

// Model is the whole file.
type Model struct {
	Root   *Node
	nextID int
}

func New() *Model {
	m := &Model{}
	m.Root = m.newNode("group")
	return m
}

func (m *Model) newNode(kind string) *Node {
	m.nextID++
	n := &Node{ID: m.nextID, Kind: kind, Attrs: map[string]*Attr{}}
	if kind == "group" {
		n.Children = map[string]*Node{}
	}
	return n
}

// Split splits "/a/b/c" into parent "/a/b" and name "c". Root-level parent is "/".
func Split(path string) (parent, name string) {
	p := strings.TrimSuffix(path, "/")
	i := strings.LastIndex(p, "/")
	if i < 0 {
		return "", p
	}
	if i == 0 {
		return "/", p[1:]
	}
	return p[:i], p[i+1:]
}

// Lookup resolves a path through groups (hard links only).
func (m *Model) Lookup(path string) *Node {
	if path == "/" || path == "" {
		return m.Root
	}
	if !strings.HasPrefix(path, "/") {
		return nil
	}
	cur := m.Root
	for _, part := range strings.Split(strings.Trim(path, "/"), "/") {
		if cur == nil || cur.Kind != "group" {
			return nil
		}
		cur = cur.Children[part]
	}
	return cur
}

func (m *Model) addChild(path string, n *Node) error {
	parent, name := Split(path)
	p := m.Lookup(parent)
	if p == nil || p.Kind != "group" {
		return fmt.Errorf("model: parent %q missing", parent)
	}
	if name == "" {
		return fmt.Errorf("model: empty name")
	}
	if _, dup := p.Children[name]; dup {
		return fmt.Errorf("model: name %q exists in %q", name, parent)
	}
	p.Children[name] = n
	p.Order = append(p.Order, name)
	return nil
}

// CanCreate reports whether the PROPERTY (C03) allows creating path: the
// parent must exist and the name must be free. This is the only success
// prediction the model makes.
func (m *Model) CanCreate(path string) (ok bool, why string) {
	if !strings.HasPrefix(path, "/") || path == "/" {
		return true, "" // not a statement-level rejection; no expectation
	}
	parent, name := Split(path)
	p := m.Lookup(parent)
	if p == nil || p.Kind != "group" {
		return false, "missing-parent"
	}
	if _, dup := p.Children[name]; dup {
		return false, "duplicate-name"
	}
	return true, ""
}

// ErrUnrepresentable is returned by Apply when a call succeeded that the model
// cannot represent (e.g. duplicate name accepted).
type ErrUnrepresentable struct{ Why string }

func (e *ErrUnrepresentable) Error() string { return "model cannot represent: " + e.Why }

func numElems(dims []uint64) int {
	n := 1
	for _, d := range dims {
		n *= int(d)
	}
	return n
}

// Apply applies a successful operation to the model.
func (m *Model) Apply(op *trace.Op) error {
	switch op.Op {
	case "create_dataset", "create_compound_dataset":
		dt, ok := ResolveDType(op)
		if !ok {
			return &ErrUnrepresentable{"dataset with unresolvable type created: " + op.DType}
		}
		n := m.newNode("dataset")
		n.DS = &Dataset{DT: dt, Op: *op, Dims: append([]uint64(nil), op.Dims...),
			MaxDims: append([]uint64(nil), op.MaxDims...), Chunk: append([]uint64(nil), op.Chunk...),
			Filters: append([]string(nil), op.Filters...)}
		if err := m.addChild(op.Path, n); err != nil {
			return &ErrUnrepresentable{err.Error()}
		}
	case "write", "write_raw":
		n := m.Lookup(op.Path)
		if n == nil || n.Kind != "dataset" {
			return &ErrUnrepresentable{"write to non-dataset " + op.Path}
		}
		ds := n.DS
		cnt := numElems(ds.Dims)
		if ds.DT.Class == "vlen" {
			ds.VLen = GenVLen(ds.DT, cnt, op.Data)
		} else {
			ds.Raw = GenRaw(ds.DT, cnt, op.Data)
			if len(ds.Raw) != cnt*ds.DT.Size {
				return &ErrUnrepresentable{"write accepted wrong-size data"}
			}
		}
		ds.Written = true
		ds.Shrunk, ds.Regrown = false, false
	case "resize":
		n := m.Lookup(op.Path)
		if n == nil || n.Kind != "dataset" {
			return &ErrUnrepresentable{"resize of non-dataset"}
		}
		n.DS.resize(op.Dims)
	case "write_attr":
		n := m.Lookup(op.Path)
		if n == nil {
			return &ErrUnrepresentable{"attr on missing object"}
		}
		a, ok := MakeAttr(op.Name, op.Value)
		if !ok {
			return &ErrUnrepresentable{"attribute of unsupported kind accepted: " + op.Value.Kind}
		}
		if _, had := n.Attrs[op.Name]; !had {
			n.AOrder = append(n.AOrder, op.Name)
		}
		n.Attrs[op.Name] = a
	case "delete_attr":
		n := m.Lookup(op.Path)
		if n == nil {
			return &ErrUnrepresentable{"attr delete on missing object"}
		}
		if _, had := n.Attrs[op.Name]; !had {
			// deleting an absent name "succeeded": the map is unchanged.
			return nil
		}
		delete(n.Attrs, op.Name)
		for i, s := range n.AOrder {
			if s == op.Name {
				n.AOrder = append(n.AOrder[:i:i], n.AOrder[i+1:]...)
				break
			}
		}
	case "create_group":
		if err := m.addChild(op.Path, m.newNode("group")); err != nil {
			return &ErrUnrepresentable{err.Error()}
		}
	case "create_dense_group", "create_group_with_links":
		g := m.newNode("group")
		g.Dense = true
		if err := m.addChild(op.Path, g); err != nil {
			return &ErrUnrepresentable{err.Error()}
		}
		for _, l := range op.Links {
			t := m.Lookup(l.Target)
			if t == nil {
				return &ErrUnrepresentable{"link to missing target accepted: " + l.Target}
			}
			if _, dup := g.Children[l.Name]; dup {
				return &ErrUnrepresentable{"duplicate link name accepted"}
			}
			g.Children[l.Name] = t
			g.Order = append(g.Order, l.Name)
		}
	case "hard_link":
		t := m.Lookup(op.Target)
		if t == nil {
			return &ErrUnrepresentable{"hard link to missing target accepted: " + op.Target}
		}
		if err := m.addChild(op.Path, t); err != nil {
			return &ErrUnrepresentable{err.Error()}
		}
	case "soft_link":
		n := m.newNode("soft")
		n.Target = op.Target
		if err := m.addChild(op.Path, n); err != nil {
			return &ErrUnrepresentable{err.Error()}
		}
	case "ext_link":
		n := m.newNode("ext")
		n.Target, n.File = op.Target, op.File
		if err := m.addChild(op.Path, n); err != nil {
			return &ErrUnrepresentable{err.Error()}
		}
	}
	return nil
}

func (ds *Dataset) resize(newDims []uint64) {
	old := ds.Dims
	ds.Dims = append([]uint64(nil), newDims...)
	if ds.Written && len(old) == len(newDims) {
		for i := range old {
			if newDims[i] > old[i] && ds.Shrunk {
				ds.Regrown = true
			}
		}
		for i := range old {
			if newDims[i] < old[i] {
				ds.Shrunk = true
			}
		}
	}
	if !ds.Written || ds.DT.Class == "vlen" {
		return
	}
	es := ds.DT.Size
	out := make([]byte, numElems(newDims)*es)
	rank := len(newDims)
	if rank != len(old) {
		ds.Raw = out
		return
	}
	// copy the intersection
	idx := make([]uint64, rank)
	inter := make([]uint64, rank)
	for i := range inter {
		inter[i] = min(old[i], newDims[i])
		if inter[i] == 0 {
			ds.Raw = out
			return
		}
	}
	for {
		var so, do uint64
		for i := 0; i < rank; i++ {
			so = so*old[i] + idx[i]
			do = do*newDims[i] + idx[i]
		}
		copy(out[do*uint64(es):(do+1)*uint64(es)], ds.Raw[so*uint64(es):(so+1)*uint64(es)])
		k := rank - 1
		for k >= 0 {
			idx[k]++
			if idx[k] < inter[k] {
				break
			}
			idx[k] = 0
			k--
		}
		if k < 0 {
			break
		}
	}
	ds.Raw = out
}

// GenVLen generates per-element payloads for vlen datasets.
func GenVLen(dt DType, count int, d *trace.Data) [][]byte {
	out := make([][]byte, count)
	seed := uint64(1)
	gen := "rand"
	var lens []int
	if d != nil {
		seed = d.Seed
		if d.Gen != "" {
			gen = d.Gen
		}
		lens = d.Lens
	}
	r := &splitmix{s: seed}
	for i := range out {
		n := 0
		if len(lens) > 0 {
			n = lens[i%len(lens)]
		} else {
			n = int(r.next() % 12)
		}
		if dt.BaseKind == "string" {
			b := make([]byte, n)
			for j := range b {
				switch gen {
				case "ramp":
					b[j] = byte('a' + (i+j)%26)
				default:
					c := byte(r.next())
					if c == 0 && gen != "nul" {
						c = 'x'
					}
					b[j] = c
				}
			}
			out[i] = b
		} else {
			b := make([]byte, n*dt.BaseSize)
			for j := 0; j < n; j++ {
				var v uint64
				if gen == "ramp" {
					v = uint64(i*100 + j)
					if dt.BaseKind == "float" {
						v = floatBits(dt.BaseSize, float64(i)+float64(j)/8)
					}
				} else {
					v = r.next()
				}
				putLE(b[j*dt.BaseSize:(j+1)*dt.BaseSize], v)
			}
			out[i] = b
		}
	}
	return out
}

// VLenGoValue converts vlen payloads into the Go value the write API expects.
func VLenGoValue(dt DType, el [][]byte) interface{} {
	if dt.BaseKind == "string" {
		o := make([]string, len(el))
		for i, b := range el {
			o[i] = string(b)
		}
		return o
	}
	switch dt.BaseKind + fmt.Sprint(dt.BaseSize) {
	case "int4":
		o := make([][]int32, len(el))
		for i, b := range el {
			o[i] = NumSlice("int", 4, b).([]int32)
		}
		return o
	case "int8":
		o := make([][]int64, len(el))
		for i, b := range el {
			o[i] = NumSlice("int", 8, b).([]int64)
		}
		return o
	case "uint4":
		o := make([][]uint32, len(el))
		for i, b := range el {
			o[i] = NumSlice("uint", 4, b).([]uint32)
		}
		return o
	case "uint8":
		o := make([][]uint64, len(el))
		for i, b := range el {
			o[i] = NumSlice("uint", 8, b).([]uint64)
		}
		return o
	case "float4":
		o := make([][]float32, len(el))
		for i, b := range el {
			o[i] = NumSlice("float", 4, b).([]float32)
		}
		return o
	case "float8":
		o := make([][]float64, len(el))
		for i, b := range el {
			o[i] = NumSlice("float", 8, b).([]float64)
		}
		return o
	}
	return nil
}

// Paths returns every path of the model tree (depth-first, insertion order),
// each with its node. Cycles through hard links to ancestors are cut: a group
// already on the current path is listed but not descended into.
func (m *Model) Paths() []PathNode {
	var out []PathNode
	var walk func(prefix string, n *Node, stack map[int]bool)
	walk = func(prefix string, n *Node, stack map[int]bool) {
		cut := n.Kind == "group" && stack[n.ID]
		out = append(out, PathNode{Path: prefix, Node: n, Cut: cut})
		if n.Kind != "group" || cut {
			return
		}
		stack[n.ID] = true
		names := append([]string(nil), n.Order...)
		for _, name := range names {
			p := prefix
			if !strings.HasSuffix(p, "/") {
				p += "/"
			}
			walk(p+name, n.Children[name], stack)
		}
		delete(stack, n.ID)
	}
	walk("/", m.Root, map[int]bool{})
	return out
}

type PathNode struct {
	Path string
	Node *Node
	Cut  bool // a group reached again on its own path (cycle): listed, not descended into
}

// SortedNames returns the child names sorted.
func (n *Node) SortedNames() []string {
	s := append([]string(nil), n.Order...)
	sort.Strings(s)
	return s
}

// StateHash returns a short fingerprint of the model state (for distinct_states).
func (m *Model) StateHash() uint64 {
	h := uint64(1469598103934665603)
	mix := func(s string) {
		for i := 0; i < len(s); i++ {
			h ^= uint64(s[i])
			h *= 1099511628211
		}
	}
	for _, pn := range m.Paths() {
		mix(pn.Path)
		mix(pn.Node.Kind)
		if pn.Node.DS != nil {
			mix(fmt.Sprint(pn.Node.DS.Dims, pn.Node.DS.Written, len(pn.Node.DS.Raw)))
		}
		names := append([]string(nil), pn.Node.AOrder...)
		sort.Strings(names)
		for _, a := range names {
			mix(a)
			mix(string(pn.Node.Attrs[a].Data))
		}
	}
	return h
}
