package e1

import (
	"fmt"
	"strings"

	"github.com/scigolib/hdf5/verifsim/model"
	"github.com/scigolib/hdf5/verifsim/rng"
	"github.com/scigolib/hdf5/verifsim/trace"
)

var extents = []uint64{1, 2, 3, 5, 7, 8, 13, 16, 17, 31, 64, 100}

// Steer describes which operation shapes a steered run avoids (the avoidance
// predicates of known findings). A zero Steer avoids nothing.
type Steer struct {
	On bool
}

func pickSB(r *rng.R, steer bool) int {
	if steer {
		return rng.Pick(r, []int{2, 2, 2, 3})
	}
	return rng.Pick(r, []int{0, 2, 2, 3})
}

func genDims(r *rng.R, maxRank int, maxElems int) []uint64 {
	rank := r.Weighted([]int{0, 5, 3, 2, 1}[:maxRank+1])
	if rank == 0 {
		rank = 1
	}
	for {
		d := make([]uint64, rank)
		n := 1
		for i := range d {
			d[i] = rng.Pick(r, extents)
			n *= int(d[i])
		}
		if n <= maxElems {
			return d
		}
	}
}

func genChunk(r *rng.R, dims []uint64) []uint64 {
	c := make([]uint64, len(dims))
	for i, d := range dims {
		switch r.Intn(4) {
		case 0:
			c[i] = d // single chunk in this dimension
		case 1:
			c[i] = 1 + uint64(r.Intn(int(d))) // arbitrary, often non-dividing
		case 2:
			// a divisor
			c[i] = 1
			for k := uint64(2); k <= d; k++ {
				if d%k == 0 && r.Chance(0.5) {
					c[i] = k
					break
				}
			}
		default:
			c[i] = max(1, d/2)
		}
	}
	return c
}

func genData(r *rng.R) *trace.Data {
	return &trace.Data{Gen: rng.Pick(r, []string{"ramp", "rand", "extreme", "rand", "const", "zero"}), Seed: r.Uint64() % 1000}
}

// genDatasetOp generates a create_dataset op of a random supported type.
func genDatasetOp(r *rng.R, path string, allowChunk bool, typeSet []string) trace.Op {
	op := trace.Op{Op: "create_dataset", Path: path}
	op.DType = rng.Pick(r, typeSet)
	op.Dims = genDims(r, 4, 600)
	switch {
	case op.DType == "String":
		op.StrSize = uint32(rng.Pick(r, []int{1, 2, 5, 8, 16, 33}))
	case len(op.DType) > 5 && op.DType[:5] == "Array":
		op.ArrDims = []uint64{uint64(r.Range(1, 4))}
		if r.Chance(0.3) {
			op.ArrDims = append(op.ArrDims, uint64(r.Range(1, 3)))
		}
	case len(op.DType) > 4 && op.DType[:4] == "Enum":
		n := r.Range(1, 4)
		for i := 0; i < n; i++ {
			op.EnumN = append(op.EnumN, fmt.Sprintf("E%d", i))
			op.EnumV = append(op.EnumV, int64(i*3))
		}
	case op.DType == "Opaque":
		op.OpqTag = rng.Pick(r, []string{"tag", "JPEG", "x", "ABCDEFGH", "0123456789ABCDEF", "seven77"})
		op.OpqSize = uint32(r.Range(1, 9))
	}
	if allowChunk && r.Chance(0.5) {
		op.Chunk = genChunk(r, op.Dims)
	}
	if allowChunk && r.Chance(0.04) {
		// many chunks: a chunk index of several hundred entries, more than ten
		// chunks along two dimensions (index keys, node capacity, multi-digit coordinates)
		op.Dims = []uint64{uint64(r.Range(12, 40)), uint64(r.Range(11, 24))}
		op.Chunk = []uint64{uint64(r.Range(1, 2)), uint64(r.Range(1, 2))}
		if r.Chance(0.3) {
			op.Dims = []uint64{uint64(r.Range(256, 700))}
			op.Chunk = []uint64{uint64(r.Range(1, 2))}
		}
	}
	return op
}

var numericTypes = model.BasicNames

var allSimpleTypes = append(append([]string{}, model.BasicNames...),
	"String", "ArrayInt32", "ArrayFloat64", "ArrayUint8", "ArrayInt16", "EnumInt8", "EnumInt32", "EnumUint16", "EnumInt64",
	"ObjectReference", "RegionReference", "Opaque")

func genCompoundOp(r *rng.R, path string) trace.Op {
	op := trace.Op{Op: "create_compound_dataset", Path: path, DType: "Compound"}
	kinds := []string{"int32", "int64", "float32", "float64", "int8", "int16", "uint8", "uint16", "uint32", "uint64"}
	n := r.Range(1, 4)
	off := uint32(0)
	for i := 0; i < n; i++ {
		k := rng.Pick(r, kinds)
		b, _ := model.FieldBasic(k)
		op.Fields = append(op.Fields, trace.Field{Name: fmt.Sprintf("f%d", i), Kind: k, Offset: off})
		off += uint32(b.Size)
	}
	op.Dims = genDims(r, 2, 200)
	if r.Chance(0.3) {
		op.Mode = "v1" // version 1 compound encoding (member names padded to 8 bytes)
	}
	if r.Chance(0.5) {
		// member name lengths around the 8-byte padding boundary of the encodings
		for i := range op.Fields {
			l := rng.Pick(r, []int{7, 8, 9, 15, 16, 24})
			op.Fields[i].Name += strings.Repeat("_", l-len(op.Fields[i].Name))
		}
	}
	return op
}

var attrKinds = []string{"int8", "int16", "int32", "int64", "uint8", "uint16", "uint32", "uint64", "float32", "float64",
	"string", "string", "[]int32", "[]int64", "[]float32", "[]float64"}

// genValue generates an attribute value; big selects long strings / slices.
func genValue(r *rng.R, kind string, big bool) *trace.Value {
	v := &trace.Value{Kind: kind}
	ext := func() int64 {
		return int64(rng.Pick(r, []uint64{0, 1, 0x7F, 0x80, 0xFF, 0x7FFF, 0x8000, 0xFFFFFFFF, 0x80000000, 0x7FFFFFFFFFFFFFFF, 0x8000000000000000, r.Uint64()}))
	}
	fl := func() uint64 {
		return rng.Pick(r, []uint64{0, 0x3FF0000000000000, 0x7FF8000000000001, 0xFFF0000000000000, 0x3F800000, 0x7FC00001, r.Uint64(), r.Uint64() >> 32})
	}
	switch kind {
	case "string":
		n := r.Range(0, 12)
		if big {
			n = rng.Pick(r, []int{0, 1, 40, 100, 200, 300})
		}
		b := make([]byte, n)
		for i := 0; i < len(b); i++ {
			b[i] = byte(0x20 + r.Intn(0x5F))
			if r.Chance(0.05) && i+1 < len(b) {
				// a two-byte UTF-8 sequence (traces are JSON: strings must be valid UTF-8)
				b[i], b[i+1] = 0xC3, byte(0xA0+r.Intn(0x1F))
				i++
			}
		}
		v.S = string(b)
	case "[]int32", "[]int64":
		n := r.Range(1, 6)
		if big {
			n = r.Range(1, 64)
		}
		for i := 0; i < n; i++ {
			v.I = append(v.I, ext())
		}
	case "[]float32", "[]float64":
		n := r.Range(1, 6)
		if big {
			n = r.Range(1, 64)
		}
		for i := 0; i < n; i++ {
			v.F = append(v.F, fl())
		}
	case "float32", "float64":
		v.F = []uint64{fl()}
	default:
		v.I = []int64{ext()}
	}
	return v
}

// attrNames builds a pool of attribute names: short, long, UTF-8.
func attrNames(r *rng.R, n int) []string {
	out := make([]string, 0, n)
	for i := 0; i < n; i++ {
		switch {
		case i%7 == 5:
			s := fmt.Sprintf("long_%d_", i)
			for len(s) < 200 {
				s += "abcdefghij"
			}
			out = append(out, s)
		case i%7 == 6:
			out = append(out, fmt.Sprintf("ünï_%d_é", i))
		case i%7 == 3:
			// siblings of equal length that differ in one byte only: at index 11 (the
			// last byte of the name hash's first 12-byte block) or at index 23
			b := []byte("calibration_coefficient_x")
			at := 11
			if i >= 17 {
				at = 23
			}
			b[at] = byte('0' + i/7)
			out = append(out, string(b))
		default:
			out = append(out, fmt.Sprintf("a%d", i))
		}
	}
	return out
}

// genVLen generates the create and write operations of a variable-length
// dataset; big adds element lengths around and above one global heap collection.
func genVLen(r *rng.R, path string, maxCount int, big bool) (trace.Op, trace.Op) {
	dt := rng.Pick(r, []string{"VLenString", "VLenString", "VLenInt32", "VLenInt64", "VLenFloat64", "VLenUint32"})
	cnt := r.Range(1, maxCount)
	op := trace.Op{Op: "create_dataset", Path: path, DType: dt, Dims: []uint64{uint64(cnt)}}
	return op, trace.Op{Op: "write", Path: path, Data: genVLenData(r, big)}
}

func genVLenData(r *rng.R, big bool) *trace.Data {
	pool := []int{0, 1, 7, 8, 9, 3, 16, 100}
	if big {
		pool = append(pool, 2000, 2000, 4064, 4081, 5000)
	}
	var lens []int
	for k := 0; k < r.Range(1, 6); k++ {
		lens = append(lens, rng.Pick(r, pool))
	}
	return &trace.Data{Gen: rng.Pick(r, []string{"rand", "ramp", "nul"}), Seed: r.Uint64() % 1000, Lens: lens}
}
