package e1

import (
	"fmt"
	"os"
	"sort"
	"strings"

	"github.com/scigolib/hdf5/verifsim/harness"
	"github.com/scigolib/hdf5/verifsim/rng"
	"github.com/scigolib/hdf5/verifsim/trace"
)

// ---------------------------------------------------------------------------
// C13 resize

const unlimited = uint64(0xFFFFFFFFFFFFFFFF)

func genC13(r *rng.R, tier string, steer bool, idx int) *trace.Trace {
	t := &trace.Trace{Config: trace.Config{SB: pickSB(r, false)}}
	rank := r.Weighted([]int{0, 5, 3, 2})
	dims := make([]uint64, rank)
	maxd := make([]uint64, rank)
	chunk := make([]uint64, rank)
	for i := range dims {
		dims[i] = uint64(r.Range(1, 9))
		chunk[i] = uint64(r.Range(1, int(dims[i])))
		switch r.Intn(3) {
		case 0:
			maxd[i] = unlimited
		case 1:
			maxd[i] = dims[i] + uint64(r.Intn(12))
		default:
			maxd[i] = dims[i]
		}
	}
	dt := rng.Pick(r, []string{"Float64", "Int32", "Int64", "Float32", "Uint8", "Int16"})
	op := trace.Op{Op: "create_dataset", Path: "/r", DType: dt, Dims: dims, Chunk: chunk, MaxDims: maxd}
	if r.Chance(0.15) && !steer {
		// avoidance (known finding): filtered datasets cannot be read back by the library
		op.Filters = []string{rng.Pick(r, []string{"gzip:6", "shuffle", "fletcher32"})}
	}
	t.Ops = append(t.Ops, op)
	if r.Chance(0.3) {
		// a second object after it, so that header rewrites have a neighbour
		t.Ops = append(t.Ops, trace.Op{Op: "create_dataset", Path: "/other", DType: "Int32", Dims: []uint64{3}},
			trace.Op{Op: "write", Path: "/other", Data: genData(r)})
	}
	steps := r.Range(1, 12)
	cur := append([]uint64(nil), dims...)
	shrunk, written := false, false
	for i := 0; i < steps; i++ {
		k0 := r.Weighted([]int{5, 4, 1, 1})
		if k0 == 1 {
			written, shrunk = true, false
		}
		switch k0 {
		case 0: // resize
			nd := make([]uint64, rank)
			beyond := r.Chance(0.12)
			for k := range nd {
				hi := maxd[k]
				if hi == unlimited {
					hi = 14
				}
				lo := uint64(1)
				if r.Chance(0.5) { // grow
					lo = cur[k]
				}
				if steer && shrunk && written && hi > cur[k] {
					hi = cur[k] // avoidance (known finding): growing again after a shrink exposes the old data
				}
				if hi < lo {
					hi = lo
				}
				nd[k] = lo + uint64(r.Intn(int(hi-lo)+1))
			}
			if beyond {
				k := r.Intn(rank)
				if maxd[k] != unlimited {
					nd[k] = maxd[k] + 1 + uint64(r.Intn(3))
				}
			}
			within := true
			for k := range nd {
				if maxd[k] != unlimited && nd[k] > maxd[k] {
					within = false
				}
			}
			o := trace.Op{Op: "resize", Path: "/r", Dims: nd}
			if within {
				o.Must = "ok"
				for k := range nd {
					if nd[k] < cur[k] {
						shrunk = true
					}
				}
				cur = nd
			} else {
				o.Must = "error"
			}
			t.Ops = append(t.Ops, o)
		case 1:
			t.Ops = append(t.Ops, trace.Op{Op: "write", Path: "/r", Data: genData(r)})
		case 2:
			if !steer {
				t.Ops = append(t.Ops, trace.Op{Op: "restart", Mode: "open_for_write"})
			}
		case 3:
			t.Ops = append(t.Ops, trace.Op{Op: "write_attr", Path: "/r", Name: fmt.Sprintf("a%d", r.Intn(3)), Value: genValue(r, rng.Pick(r, attrKinds), false)})
		}
	}
	return t
}

func execC13(t *trace.Trace, dir string) *harness.RunResult {
	out := RunClassified(t, Options{Dir: dir, Property: "C13", DetectClobber: true})
	res := toResult(out)
	resizes, writeBetween, kinds := 0, false, ""
	lastResize := -1
	for i, op := range t.Ops {
		if i >= len(out.Results) || !out.Results[i].OK() {
			continue
		}
		switch op.Op {
		case "resize":
			if lastResize >= 0 {
				for j := lastResize + 1; j < i; j++ {
					if t.Ops[j].Op == "write" && out.Results[j].OK() {
						writeBetween = true
					}
				}
			}
			lastResize = i
			resizes++
			kinds += "r"
		case "write":
			kinds += "w"
		case "restart":
			kinds += "|"
		}
	}
	ok := false
	for k, v := range out.Probes {
		if strings.HasPrefix(k, "values-ok") && v > 0 {
			ok = true
		}
	}
	res.NonTrivial = resizes >= 2 && writeBetween && ok
	if len(kinds) > 16 {
		kinds = kinds[:16]
	}
	res.Fingerprint = fmt.Sprintf("sb%d|%s|rank%d|%s|%v", t.Config.SB, t.Ops[0].DType, len(t.Ops[0].Dims), kinds, t.Ops[0].Filters)
	return res
}

// ---------------------------------------------------------------------------
// C16 failing calls

func genC16(r *rng.R, tier string, steer bool, idx int) *trace.Trace {
	t := &trace.Trace{Config: trace.Config{SB: pickSB(r, false)}}
	n := r.Range(3, 40)
	var dsets, groups, all []string
	groups = append(groups, "/")
	resizable := map[string][]uint64{}
	var resizableList []string
	var vlens []string
	nameN := 0
	join := func(g, nm string) string {
		if g == "/" {
			return "/" + nm
		}
		return g + "/" + nm
	}
	wide := r.Chance(0.1)
	if r.Chance(0.08) {
		// rejection storm: one long name in a group, the same request repeated
		// (each time rejected as a duplicate), then new long names in that group -
		// whatever a rejected call leaves behind in the group's fixed-size name
		// storage adds up until a valid create is refused
		g := "/"
		if r.Chance(0.5) {
			g = "/storm"
			t.Ops = append(t.Ops, trace.Op{Op: "create_group", Path: g})
			groups = append(groups, g)
			all = append(all, g)
		}
		first := join(g, "storm_"+strings.Repeat("x", r.Range(8, 24)))
		t.Ops = append(t.Ops, trace.Op{Op: "create_dataset", Path: first, DType: "Int32", Dims: []uint64{2}})
		dsets = append(dsets, first)
		all = append(all, first)
		for k, reps := 0, r.Range(4, 14); k < reps; k++ {
			d := trace.Op{Op: "create_dataset", Path: first, DType: "Int32", Dims: []uint64{2}, Bad: "dup"}
			switch r.Intn(3) {
			case 1:
				d = trace.Op{Op: "create_group", Path: first, Bad: "dup"}
			case 2:
				d = trace.Op{Op: "hard_link", Path: first, Target: first, Bad: "dup"}
			}
			t.Ops = append(t.Ops, d)
		}
		for k, more := 0, r.Range(1, 4); k < more; k++ {
			p := join(g, fmt.Sprintf("after%d_", k)+strings.Repeat("y", r.Range(4, 20)))
			t.Ops = append(t.Ops, trace.Op{Op: "create_dataset", Path: p, DType: "Int32", Dims: []uint64{2}})
			dsets = append(dsets, p)
			all = append(all, p)
		}
	}
	for i := 0; i < n; i++ {
		nameN++
		parent := rng.Pick(r, groups)
		if wide {
			parent = "/"
		}
		path := join(parent, fmt.Sprintf("o%d", nameN))
		if r.Chance(0.35) {
			// a call built to fail
			bad := rng.Pick(r, []string{"name-empty", "name-noslash", "dims-empty", "dims-zero", "chunk-rank", "chunk-zero", "chunk-too-big",
				"maxdims-small", "maxdims-rank", "maxdims-nochunk", "dtype-bogus", "string-nosize", "array-nodims", "enum-mismatch", "opaque-notag",
				"data-len", "data-type", "dup", "missing-parent", "attr-kind", "attr-huge", "resize-beyond", "resize-rank", "resize-fixed",
				"delete-absent", "link-missing-target", "group-noslash", "softlink-empty", "extlink-nofile", "longname", "attr-grow", "attr-grow", "resize-beyond-nd", "resize-beyond-nd", "resize-zero", "vlen-data-len"})
			op := trace.Op{Op: "create_dataset", Path: path, DType: "Int32", Dims: []uint64{4}, Bad: bad}
			switch bad {
			case "name-empty":
				op.Path = ""
			case "name-noslash":
				op.Path = "noslash"
			case "dims-empty":
				op.Dims = nil
			case "dims-zero":
				op.Dims = []uint64{3, 0}
			case "chunk-rank":
				op.Chunk = []uint64{2, 2}
			case "chunk-zero":
				op.Chunk = []uint64{0}
			case "chunk-too-big":
				op.Chunk = []uint64{5}
			case "maxdims-small":
				op.Chunk, op.MaxDims = []uint64{2}, []uint64{3}
			case "maxdims-rank":
				op.Chunk, op.MaxDims = []uint64{2}, []uint64{8, 8}
			case "maxdims-nochunk":
				op.MaxDims = []uint64{8}
			case "dtype-bogus":
				op.DType = "Bogus"
			case "string-nosize":
				op.DType = "String"
			case "array-nodims":
				op.DType = "ArrayInt32"
			case "enum-mismatch":
				op.DType, op.EnumN, op.EnumV = "EnumInt32", []string{"A", "B"}, []int64{1}
			case "opaque-notag":
				op.DType, op.OpqSize = "Opaque", 4
			case "data-len", "data-type":
				if len(dsets) == 0 {
					continue
				}
				op = trace.Op{Op: "write", Path: rng.Pick(r, dsets), Bad: bad, Data: &trace.Data{Gen: "ramp", Seed: 3}}
				if bad == "data-len" {
					op.Data.WrongLen = rng.Pick(r, []int{-1, 1, 5})
				} else {
					op.Data.WrongType = true
				}
			case "dup":
				if len(all) == 0 {
					continue
				}
				op.Path = rng.Pick(r, all)
				if r.Chance(0.5) {
					op = trace.Op{Op: "create_group", Path: op.Path, Bad: bad}
				}
			case "missing-parent":
				op.Path = join(join(parent, "nope"), "x")
				if r.Chance(0.3) {
					op = trace.Op{Op: "create_group", Path: op.Path, Bad: bad}
				}
			case "attr-kind":
				if len(dsets) == 0 {
					continue
				}
				op = trace.Op{Op: "write_attr", Path: rng.Pick(r, dsets), Name: "bad", Bad: bad,
					Value: &trace.Value{Kind: rng.Pick(r, []string{"nil", "bool", "[]string", "struct", "emptyslice", "map", "int"})}}
			case "attr-huge":
				if len(dsets) == 0 {
					continue
				}
				v := &trace.Value{Kind: "string"}
				v.S = strings.Repeat("H", rng.Pick(r, []int{250, 300, 70000}))
				op = trace.Op{Op: "write_attr", Path: rng.Pick(r, dsets), Name: fmt.Sprintf("h%d", r.Intn(3)), Bad: bad, Value: v}
			case "attr-grow":
				// replace an attribute of the ordinary name pool by a value that may no
				// longer fit the object header (fails or succeeds depending on the
				// header's fill level; either way later calls must behave normally)
				if len(dsets) == 0 {
					continue
				}
				v := &trace.Value{Kind: "string"}
				v.S = strings.Repeat("G", rng.Pick(r, []int{60, 100, 150, 200, 250}))
				op = trace.Op{Op: "write_attr", Path: rng.Pick(r, dsets), Name: fmt.Sprintf("a%d", r.Intn(12)), Bad: bad, Value: v}
			case "resize-beyond", "resize-rank", "resize-fixed":
				if len(dsets) == 0 {
					continue
				}
				op = trace.Op{Op: "resize", Path: rng.Pick(r, dsets), Dims: []uint64{99}, Bad: bad}
				if bad == "resize-rank" {
					op.Dims = []uint64{2, 2, 2}
				}
			case "resize-beyond-nd", "resize-zero":
				// a request of the dataset's own rank in which one (for -nd: not the
				// first, where possible) dimension exceeds the declared maximum / is zero
				// while the other dimensions change too
				if len(resizableList) == 0 {
					continue
				}
				p := rng.Pick(r, resizableList)
				md := resizable[p]
				nd := make([]uint64, len(md))
				for k := range nd {
					nd[k] = uint64(r.Range(1, int(md[k])))
				}
				k := len(nd) - 1 - r.Intn(max(1, len(nd)-1))
				if bad == "resize-zero" {
					nd[k] = 0
				} else {
					nd[k] = md[k] + uint64(r.Range(1, 4))
				}
				op = trace.Op{Op: "resize", Path: p, Dims: nd, Bad: bad}
			case "vlen-data-len":
				if len(vlens) == 0 {
					continue
				}
				d := genVLenData(r, false)
				d.WrongLen = rng.Pick(r, []int{-1, 1, 3})
				op = trace.Op{Op: "write", Path: rng.Pick(r, vlens), Bad: bad, Data: d}
			case "delete-absent":
				if len(dsets) == 0 {
					continue
				}
				op = trace.Op{Op: "delete_attr", Path: rng.Pick(r, dsets), Name: "never-written", Bad: bad}
			case "link-missing-target":
				op = trace.Op{Op: "hard_link", Path: path, Target: "/does/not/exist", Bad: bad}
			case "group-noslash":
				op = trace.Op{Op: "create_group", Path: "g", Bad: bad}
			case "softlink-empty":
				op = trace.Op{Op: "soft_link", Path: path, Target: "", Bad: bad}
			case "extlink-nofile":
				op = trace.Op{Op: "ext_link", Path: path, File: "", Target: "/x", Bad: bad}
			case "longname":
				op.Path = join(parent, strings.Repeat("L", rng.Pick(r, []int{120, 250, 300})))
			}
			t.Ops = append(t.Ops, op)
			continue
		}
		switch r.Weighted([]int{30, 15, 25, 10, 8, 6, 3, 3}) {
		case 0:
			if r.Chance(0.1) {
				c, w := genVLen(r, path, 6, r.Chance(0.3))
				t.Ops = append(t.Ops, c, w)
				vlens = append(vlens, path)
				all = append(all, path)
				continue
			}
			op := genDatasetOp(r, path, true, []string{"Int32", "Float64", "Uint8", "String", "Int64"})
			if len(op.Chunk) > 0 && r.Chance(0.5) {
				op.MaxDims = make([]uint64, len(op.Dims))
				for k := range op.MaxDims {
					op.MaxDims[k] = op.Dims[k] + 4
				}
				resizable[path] = op.MaxDims
				resizableList = append(resizableList, path)
			}
			t.Ops = append(t.Ops, op)
			dsets = append(dsets, path)
			all = append(all, path)
		case 1:
			t.Ops = append(t.Ops, trace.Op{Op: "create_group", Path: path})
			groups = append(groups, path)
			all = append(all, path)
		case 2:
			if len(dsets) > 0 {
				t.Ops = append(t.Ops, trace.Op{Op: "write", Path: rng.Pick(r, dsets), Data: genData(r)})
			}
		case 3:
			// attribute targets are original paths only: two OpenDataset handles on
			// one object (reached through a hard link) each cache the header
			if tg := append(append([]string{}, dsets...), groups[1:]...); len(tg) > 0 {
				t.Ops = append(t.Ops, trace.Op{Op: "write_attr", Path: rng.Pick(r, tg), Name: fmt.Sprintf("a%d", r.Intn(12)), Value: genValue(r, rng.Pick(r, attrKinds), r.Chance(0.2))})
			}
		case 4:
			if len(dsets) > 0 {
				t.Ops = append(t.Ops, trace.Op{Op: "delete_attr", Path: rng.Pick(r, dsets), Name: fmt.Sprintf("a%d", r.Intn(12))})
			}
		case 5:
			if len(all) > 0 {
				t.Ops = append(t.Ops, trace.Op{Op: "hard_link", Path: path, Target: rng.Pick(r, all)})
				all = append(all, path)
			}
		case 6:
			// Close, possibly several times, then calls on the closed handles
			t.Ops = append(t.Ops, trace.Op{Op: "close_file", N: r.Range(1, 3)})
			for k := 0; k < r.Range(1, 4); k++ {
				nameN++
				c := trace.Op{Op: "create_dataset", Path: fmt.Sprintf("/closed%d", nameN), DType: "Int32", Dims: []uint64{2}, Bad: "closed"}
				switch r.Intn(4) {
				case 1:
					c = trace.Op{Op: "create_group", Path: fmt.Sprintf("/closedg%d", nameN), Bad: "closed"}
				case 2:
					if len(dsets) > 0 {
						c = trace.Op{Op: "write", Path: rng.Pick(r, dsets), Data: genData(r), Bad: "closed"}
					}
				case 3:
					if len(dsets) > 0 {
						c = trace.Op{Op: "write_attr", Path: rng.Pick(r, dsets), Name: "late", Value: genValue(r, "int32", false), Bad: "closed"}
					}
				}
				if len(vlens) > 0 && r.Chance(0.3) {
					c = trace.Op{Op: "write", Path: rng.Pick(r, vlens), Data: genVLenData(r, false), Bad: "closed"}
				}
				t.Ops = append(t.Ops, c)
			}
			if !steer || r.Chance(0.5) {
				t.Ops = append(t.Ops, trace.Op{Op: "restart", Mode: "open_for_write"})
			}
		case 7:
			// (never range over the map: iteration order is not a function of the seed)
			if len(resizableList) > 0 {
				p := rng.Pick(r, resizableList)
				md := resizable[p]
				nd := make([]uint64, len(md))
				for k := range nd {
					nd[k] = uint64(r.Range(1, int(md[k])))
				}
				t.Ops = append(t.Ops, trace.Op{Op: "resize", Path: p, Dims: nd})
			}
		}
	}
	return t
}

func execC16(t *trace.Trace, dir string) *harness.RunResult {
	out := RunClassified(t, Options{Dir: dir, Property: "C16", DetectClobber: true})
	res := toResult(out)
	failedThenOK := false
	sawFail := false
	kinds := map[string]bool{}
	for i, op := range t.Ops {
		if i >= len(out.Results) {
			break
		}
		r := out.Results[i]
		if r.Err != "" {
			sawFail = true
			kinds[op.Op+":"+op.Bad] = true
			res.Probes["failed:"+op.Bad]++
		} else if r.OK() && sawFail {
			failedThenOK = true
		}
		if r.OK() && op.Bad != "" && op.Bad != "longname" && op.Bad != "delete-absent" && op.Bad != "attr-huge" && op.Bad != "attr-grow" {
			res.Probes["bad-call-accepted:"+op.Bad]++
		}
	}
	ks := make([]string, 0, len(kinds))
	for k := range kinds {
		ks = append(ks, k)
	}
	sort.Strings(ks)
	res.NonTrivial = failedThenOK && out.Final != nil && out.Final.OpenErr == ""
	res.Fingerprint = fmt.Sprintf("sb%d|%s", t.Config.SB, strings.Join(ks, ","))
	c16Transparency(t, dir, out, res)
	return res
}

// c16Transparency is the statement's "as if the call had not been made" taken
// literally: the history is executed a second time without the calls that were
// built to fail and did fail. Every remaining call must have the same outcome
// that succeeds there must also succeed here, and when all outcomes agree the two files must hold the same
// logical content. No capacity constant of the library is mirrored: whether a
// remaining call may fail for lack of room is decided by the library itself in
// the second execution.
func c16Transparency(t *trace.Trace, dir string, out *Outcome, res *harness.RunResult) {
	if len(out.Violations) > 0 || len(out.Results) < len(t.Ops) || out.Final == nil {
		return // already reported / incomplete execution: nothing to attribute
	}
	t2 := t.Clone()
	t2.Ops = t2.Ops[:0]
	var keep []int
	for i, op := range t.Ops {
		if op.Bad != "" && out.Results[i].Err != "" && out.Results[i].Panic == "" {
			continue
		}
		keep = append(keep, i)
		t2.Ops = append(t2.Ops, op)
	}
	if len(keep) == len(t.Ops) {
		return
	}
	res.Probes["transparency-rerun"]++
	out2 := Run(t2, Options{Dir: dir, Property: "C16", NoFinalCheck: true})
	if len(out2.Results) < len(t2.Ops) || out2.Final == nil {
		return
	}
	for k, i := range keep {
		a, b := out.Results[i], out2.Results[k]
		if a.Skipped || b.Skipped || a.Panic != "" || b.Panic != "" {
			continue
		}
		if a.Err == "" && b.Err != "" {
			// the call worked after the rejected calls and is refused without them
			// (seen on the pinned tree: a rejected duplicate hard link leaves a
			// reference-count message of value 1 behind, so that a later link to the
			// same target no longer needs room in a full header). The statement asks
			// for normal behaviour of later calls and equal logical content, not for
			// byte-equal residue, so this direction is only counted; the contents now
			// differ by that call and are not compared.
			res.Probes["transparency-residue-helped"]++
			return
		}
		if a.Err != "" && b.Err == "" {
			op := t.Ops[i]
			why := a.Err
			res.Violations = append(res.Violations, trace.Violation{Property: "C16", Oracle: "failed-calls-transparent", Class: op.Op + ":" + ErrClass(why),
				Detail: fmt.Sprintf("op %d (%s %s) is refused (%q) after the rejected calls but succeeds in the same history without them", i, op.Op, op.Path, a.Err)})
			return
		}
	}
	if ok, why := out.Final.Equal(out2.Final); !ok {
		res.Violations = append(res.Violations, trace.Violation{Property: "C16", Oracle: "failed-calls-transparent", Class: "content",
			Detail: "content after Close differs from the same history without the rejected calls: " + trunc(why)})
	}
}

// ---------------------------------------------------------------------------
// C10 sessions

func genC10(r *rng.R, tier string, steer bool, idx int) *trace.Trace {
	t := &trace.Trace{Config: trace.Config{SB: pickSB(r, false)}}
	// base file
	nobj := r.Range(1, 4)
	var dsets []string
	contiguous := map[string]bool{}
	for i := 0; i < nobj; i++ {
		p := fmt.Sprintf("/d%d", i)
		op := genDatasetOp(r, p, true, []string{"Int32", "Float64", "Int64", "String", "Float32", "Uint16"})
		t.Ops = append(t.Ops, op, trace.Op{Op: "write", Path: p, Data: genData(r)})
		dsets = append(dsets, p)
		contiguous[p] = len(op.Chunk) == 0
		for k := 0; k < r.Intn(4); k++ {
			t.Ops = append(t.Ops, trace.Op{Op: "write_attr", Path: p, Name: fmt.Sprintf("a%d", r.Intn(10)), Value: genValue(r, rng.Pick(r, attrKinds), false)})
		}
		if r.Chance(0.2) {
			t.Ops = append(t.Ops, trace.Op{Op: "create_group", Path: fmt.Sprintf("/g%d", i)})
		}
	}
	sessions := r.Range(1, 5)
	for sidx := 0; sidx < sessions; sidx++ {
		t.Ops = append(t.Ops, trace.Op{Op: "restart", Mode: "open_for_write"})
		nops := r.Range(0, 10)
		if r.Chance(0.25) {
			nops = 0 // empty session on purpose
		}
		for k := 0; k < nops; k++ {
			d := rng.Pick(r, dsets)
			switch r.Weighted([]int{50, 20, 15, 8, 7}) {
			case 0:
				t.Ops = append(t.Ops, trace.Op{Op: "write_attr", Path: d, Name: fmt.Sprintf("a%d", r.Intn(14)), Value: genValue(r, rng.Pick(r, attrKinds), r.Chance(0.15))})
			case 1:
				t.Ops = append(t.Ops, trace.Op{Op: "delete_attr", Path: d, Name: fmt.Sprintf("a%d", r.Intn(14))})
			case 2:
				t.Ops = append(t.Ops, trace.Op{Op: "write", Path: d, Data: genData(r)})
			case 3:
				if !steer {
					p := fmt.Sprintf("/n%d_%d", sidx, k)
					t.Ops = append(t.Ops, trace.Op{Op: "create_dataset", Path: p, DType: "Int32", Dims: []uint64{3}})
				}
			case 4:
				if !steer {
					t.Ops = append(t.Ops, trace.Op{Op: "create_group", Path: fmt.Sprintf("/ng%d_%d", sidx, k)})
				}
			}
		}
	}
	return t
}

func execC10(t *trace.Trace, dir string) *harness.RunResult {
	out := RunClassified(t, Options{Dir: dir, Property: "C10", DetectClobber: true})
	res := toResult(out)
	sessions, mods := 0, 0
	inSession := false
	kinds := ""
	for i, op := range t.Ops {
		if op.Op == "restart" {
			sessions++
			inSession = true
			kinds += "|"
			continue
		}
		if inSession && i < len(out.Results) && out.Results[i].OK() {
			mods++
			kinds += op.Op[:1]
		}
	}
	if len(kinds) > 20 {
		kinds = kinds[:20]
	}
	res.NonTrivial = sessions >= 2 && mods >= 1 && out.Final != nil && out.Final.OpenErr == ""
	res.Fingerprint = fmt.Sprintf("sb%d|%s", t.Config.SB, kinds)
	return res
}

// ---------------------------------------------------------------------------
// C12 vlen

func genC12(r *rng.R, tier string, steer bool, idx int) *trace.Trace {
	t := &trace.Trace{Config: trace.Config{SB: pickSB(r, false)}}
	nds := r.Range(1, 3)
	maxCount := 60
	if tier == "thorough" {
		maxCount = 2000
	}
	for i := 0; i < nds; i++ {
		p := fmt.Sprintf("/v%d", i)
		dt := rng.Pick(r, []string{"VLenString", "VLenString", "VLenInt32", "VLenInt64", "VLenFloat32", "VLenFloat64", "VLenUint32", "VLenUint64"})
		cnt := r.Range(1, maxCount)
		if r.Chance(0.5) {
			cnt = r.Range(1, 8)
		}
		op := trace.Op{Op: "create_dataset", Path: p, DType: dt, Dims: []uint64{uint64(cnt)}}
		if r.Chance(0.25) && cnt > 1 {
			op.Chunk = []uint64{uint64(r.Range(1, cnt))}
		}
		lens := []int{}
		pool := []int{0, 1, 7, 8, 9, 3, 16, 100}
		if r.Chance(0.3) {
			pool = append(pool, 4063, 4064, 4072, 4080, 4081, 2000)
		}
		if r.Chance(0.1) {
			pool = append(pool, 65537, 70000)
		}
		for k := 0; k < r.Range(1, 6); k++ {
			lens = append(lens, rng.Pick(r, pool))
		}
		d := &trace.Data{Gen: rng.Pick(r, []string{"rand", "ramp", "nul"}), Seed: r.Uint64() % 1000, Lens: lens}
		t.Ops = append(t.Ops, op, trace.Op{Op: "write", Path: p, Data: d})
	}
	return t
}

func execC12(t *trace.Trace, dir string) *harness.RunResult {
	out := RunClassified(t, Options{Dir: dir, Property: "C12", DetectClobber: true, KeepFile: true})
	defer os.Remove(out.Path)
	res := toResult(out)
	if len(out.Violations) == 0 && out.Model != nil {
		so := SpecCheck(out.Path, out.Model, "C12", "c12")
		res.Violations = append(res.Violations, so.Violations...)
		res.Probes["gcol-collections-decoded"] += so.Kinds["gcol"]
		if len(so.Violations) == 0 {
			res.Probes["vlen-elements-verified-by-decoder"]++
		}
	}
	written := 0
	fp := []string{}
	for i, op := range t.Ops {
		if op.Op == "write" && i < len(out.Results) && out.Results[i].OK() {
			written++
		}
		if op.Op == "create_dataset" {
			fp = append(fp, fmt.Sprintf("%s/%v", op.DType, len(op.Chunk) > 0))
		}
		if op.Op == "write" && op.Data != nil {
			big := false
			for _, l := range op.Data.Lens {
				if l > 4000 {
					big = true
				}
			}
			fp = append(fp, fmt.Sprintf("big=%v", big))
		}
	}
	res.NonTrivial = written > 0 && out.Final != nil && out.Final.OpenErr == ""
	res.Fingerprint = fmt.Sprintf("sb%d|%s", t.Config.SB, strings.Join(fp, ","))
	return res
}

func init() {
	harness.Register(&harness.Prop{
		ID: "C13", Engine: "E1", Level: "exploration", Gen: genC13, Exec: execC13,
		Runs:        map[string]int{"quick": 300000, "thorough": 9000000},
		Rule:        "seeded histories of Resize/Write (+ attribute writes, restarts) on a resizable chunked dataset of rank 1-3 with fixed and unlimited maximum dimensions; a model array is resized with the same calls; every Resize within maxdims must succeed and one beyond must fail; after the restart shape and values must equal the model; non-trivial = >= 2 successful resizes with a successful write between them and values verified after a restart; distinct by (superblock version, type, rank, op-kind sequence, filters)",
		Technique:   "deterministic simulation: seeded resize/write/restart histories vs array model over a simulated disk",
		Assumptions: []string{"elements never written read as zero (statement); values are compared through Read(), or an error is accepted for types without a documented typed read"},
		RealVsStub:  realVsStub,
	})
	harness.Register(&harness.Prop{
		ID: "C16", Engine: "E1", Level: "exploration", Gen: genC16, Exec: execC16,
		Runs:      map[string]int{"quick": 200000, "thorough": 6000000},
		Rule:      "seeded histories in which valid operations are interleaved with calls built to fail at each validation and capacity point (30 kinds: names, dims, chunk/max dims, datatypes, data length/type, duplicates, missing parents, attribute kinds/sizes, resize, closed handles, repeated Close); the model ignores every call that returned an error; after restart the logical dump must equal the model and later calls must behave normally; transparency: every history with rejected calls is executed a second time without them - a call that succeeds there but is refused after the rejected calls is a violation, and when all outcomes agree the two closed files must have equal logical content (8% of the histories contain a rejection storm: one long name requested 4-14 more times in one group, then new long names); no call may panic; non-trivial = a failing call followed by a successful call and a reopened file; distinct by (superblock version, set of (op, failure kind) that failed)",
		Technique: "deterministic simulation: seeded histories with failing calls vs model that ignores failed calls",
		Assumptions: []string{"I/O errors are not injected here (C17 covers them); only API-level rejection and capacity exhaustion",
			"a call built to fail that nevertheless succeeds is applied to the model when the model can represent it"},
		RealVsStub: realVsStub,
	})
	harness.Register(&harness.Prop{
		ID: "C10", Engine: "E1", Level: "exploration", Gen: genC10, Exec: execC10,
		Runs:        map[string]int{"quick": 100000, "thorough": 2500000},
		Rule:        "seeded base files (1-4 datasets, attributes, groups; all superblock versions) followed by 1-5 OpenForWrite sessions of 0-10 supported operations (attribute upserts/deletes via OpenDataset, data overwrite, object creation); after each session the logical dump must equal the model with exactly that session's successful operations applied; a session without calls must leave the file byte-identical (SHA-256); non-trivial = >= 2 sessions and >= 1 successful modification; distinct by (superblock version, per-session op-kind sequence)",
		Technique:   "deterministic simulation: multi-session open-modify-close histories vs model; restart = only file bytes survive",
		Assumptions: []string{"every eighth run uses a bundled reference-library file as base (sim/e2/c10ref.go): sessions add a scalar attribute to some dataset or do nothing; most reference files have version-1 object headers, whose modification the library refuses, so those runs mainly check that a refused or empty session changes nothing"},
		RealVsStub:  realVsStub,
	})
	harness.Register(&harness.Prop{
		ID: "C12", Engine: "E1", Level: "exploration", Gen: genC12, Exec: execC12,
		Runs:        map[string]int{"quick": 100000, "thorough": 1500000},
		Rule:        "seeded variable-length datasets (strings and numeric sequences; counts 1-60 quick / 1-2000 thorough; element lengths 0,1,7,8,9,4063..4081,>64KiB; bytes incl. NUL; contiguous and chunked; several datasets share collections), Close, Open; Info must report a variable-length class and the string reader must return the elements or an error; non-trivial = a vlen dataset written and the file reopened; distinct by (superblock version, types, chunking, large-element flag)",
		Technique:   "deterministic simulation: seeded vlen write/restart/read histories vs model over a simulated disk",
		Assumptions: []string{"where no vlen reader exists an error is accepted, never different values"},
		RealVsStub:  realVsStub,
	})
}

// ---------------------------------------------------------------------------
// C05 well-formedness (independent decoder)

func genC05(r *rng.R, tier string, steer bool, idx int) *trace.Trace {
	switch r.Intn(7) {
	case 0:
		return genC01(r, tier, steer, idx)
	case 1:
		return genC02(r, tier, steer, idx)
	case 2:
		return genC03(r, tier, steer, idx)
	case 3:
		return genC13(r, tier, steer, idx)
	case 4:
		return genC12(r, tier, steer, idx)
	case 5:
		return genC10(r, tier, steer, idx)
	default:
		return genC04(r, tier, steer, idx)
	}
}

func execC05(t *trace.Trace, dir string) *harness.RunResult {
	out := Run(t, Options{Dir: dir, Property: "C05", KeepFile: true, NoFinalCheck: true})
	defer os.Remove(out.Path)
	res := toResult(out)
	res.Violations = nil // only the decoder's verdict counts here
	so := SpecCheck(out.Path, out.Model, "C05", "c05")
	res.Violations = so.Violations
	kinds := make([]string, 0, len(so.Kinds))
	for k := range so.Kinds {
		kinds = append(kinds, k)
		res.Probes["kind:"+k]++
	}
	sort.Strings(kinds)
	for _, l := range so.Limitations {
		res.Probes["decoder-limitation:"+l]++
	}
	res.NonTrivial = len(kinds) >= 3
	res.Fingerprint = fmt.Sprintf("sb%d|%s|%d", t.Config.SB, strings.Join(kinds, ","), min(so.Objects, 12))
	return res
}

func init() {
	harness.Register(&harness.Prop{
		ID: "C05", Engine: "E1", Level: "exploration", Gen: genC05, Exec: execC05,
		Runs:      map[string]int{"quick": 150000, "thorough": 4000000},
		Rule:      "files produced by the seeded histories of C01-C04, C10, C12, C13 (all superblock versions) are closed and decoded by an independent from-the-specification decoder (sim/specdec, imports nothing from /repo): every structure in [0,filesize) and below the superblock EOF address, extents pairwise disjoint, signatures/versions/sizes/checksums consistent (incl. the fractal heap header's object count against the records of the link resp. attribute name index), decoded tree/shapes/types/element bytes/attributes/vlen elements equal to the model; non-trivial = >= 3 distinct structure kinds decoded; distinct by (superblock version, set of structure kinds, object count)",
		Technique: "deterministic simulation histories + independent spec decoder over the closed file as oracle",
		Assumptions: []string{"the independent decoder is the trusted base; it decodes 451 of the 543 bundled reference files without findings (the rest are deliberately corrupt or multi-file members)",
			"decoder limitations (structure kind not implemented) are counted, never reported as violations"},
		RealVsStub: realVsStub,
	})
}

// ---------------------------------------------------------------------------
// C04 operations on one object never change another (prefix differential)

func genC04(r *rng.R, tier string, steer bool, idx int) *trace.Trace {
	t := &trace.Trace{Config: trace.Config{SB: pickSB(r, false)}}
	nobj := r.Range(2, 6)
	type obj struct {
		path      string
		group     bool
		vlen      bool
		resizable []uint64
	}
	var objs []obj
	created := 0
	maxOps := r.Range(4, 24)
	createOne := func() {
		p := fmt.Sprintf("/x%d", created)
		created++
		if r.Chance(0.2) {
			t.Ops = append(t.Ops, trace.Op{Op: "create_group", Path: p})
			objs = append(objs, obj{path: p, group: true})
			return
		}
		if r.Chance(0.12) {
			// a variable-length dataset: its elements live in global heap collections
			// that are flushed later (at Close or on roll-over), next to other objects
			c, w := genVLen(r, p, 6, r.Chance(0.5))
			t.Ops = append(t.Ops, c, w)
			objs = append(objs, obj{path: p, vlen: true})
			return
		}
		op := genDatasetOp(r, p, true, []string{"Int32", "Float64", "Int64", "String", "Float32"})
		o := obj{path: p}
		if len(op.Chunk) > 0 && r.Chance(0.4) {
			op.MaxDims = make([]uint64, len(op.Dims))
			for k := range op.MaxDims {
				op.MaxDims[k] = op.Dims[k] + 5
			}
			o.resizable = op.MaxDims
		}
		t.Ops = append(t.Ops, op)
		objs = append(objs, o)
	}
	createOne()
	createOne()
	// some histories continue in a later session (allocator re-seeded from the
	// file size) and/or push one object into dense attribute storage, which
	// allocates a heap and an index next to whatever was allocated last
	restartAt := -1
	if r.Chance(0.3) {
		restartAt = r.Range(3, maxOps)
	}
	for len(t.Ops) < maxOps {
		if restartAt >= 0 && len(t.Ops) >= restartAt {
			t.Ops = append(t.Ops, trace.Op{Op: "restart", Mode: "open_for_write"})
			restartAt = -1
			continue
		}
		if r.Chance(0.04) && len(t.Ops)+9 < maxOps+12 {
			o := objs[r.Intn(len(objs))]
			if !o.group {
				for k := 0; k < 9; k++ {
					t.Ops = append(t.Ops, trace.Op{Op: "write_attr", Path: o.path, Name: fmt.Sprintf("b%d", k), Value: genValue(r, "int32", false)})
				}
				continue
			}
		}
		if created < nobj && r.Chance(0.25) {
			createOne() // creating a new sibling
			continue
		}
		// bias towards NOT the most recently created object
		i := r.Intn(len(objs))
		if r.Chance(0.6) && len(objs) > 1 {
			i = r.Intn(len(objs) - 1)
		}
		o := objs[i]
		switch r.Weighted([]int{30, 35, 8, 10, 7}) {
		case 0:
			if o.vlen {
				t.Ops = append(t.Ops, trace.Op{Op: "write", Path: o.path, Data: genVLenData(r, r.Chance(0.5))})
			} else if !o.group {
				t.Ops = append(t.Ops, trace.Op{Op: "write", Path: o.path, Data: genData(r)})
			}
		case 1:
			t.Ops = append(t.Ops, trace.Op{Op: "write_attr", Path: o.path, Name: fmt.Sprintf("a%d", r.Intn(12)), Value: genValue(r, rng.Pick(r, attrKinds), r.Chance(0.2))})
		case 2:
			if !o.group {
				t.Ops = append(t.Ops, trace.Op{Op: "delete_attr", Path: o.path, Name: fmt.Sprintf("a%d", r.Intn(12))})
			}
		case 3:
			t.Ops = append(t.Ops, trace.Op{Op: "hard_link", Path: fmt.Sprintf("/l%d", len(t.Ops)), Target: o.path})
		case 4:
			if o.resizable != nil {
				nd := make([]uint64, len(o.resizable))
				for k := range nd {
					nd[k] = uint64(r.Range(1, int(o.resizable[k])))
				}
				t.Ops = append(t.Ops, trace.Op{Op: "resize", Path: o.path, Dims: nd})
			}
		}
	}
	return t
}

// touched returns the paths whose observable content op is allowed to change.
func touched(op *trace.Op) map[string]bool {
	m := map[string]bool{op.Path: true}
	return m
}

func execC04(t *trace.Trace, dir string) *harness.RunResult {
	res := &harness.RunResult{Probes: map[string]int{}, Fired: map[string]int{}}
	viol := func(oracle, class, detail string, op int) {
		res.Violations = append(res.Violations, trace.Violation{Property: "C04", Oracle: oracle, Class: class, Detail: detail, OpIndex: op})
	}
	n := len(t.Ops)
	step := 1
	if n > 12 {
		step = 3
	}
	var prev *Dump
	prevK := 0
	var full *Outcome
	aliases := func(out *Outcome) map[string][]string {
		// paths that name the same object (hard links), from the model
		m := map[string][]string{}
		if out.Model == nil {
			return m
		}
		byID := map[int][]string{}
		for _, pn := range out.Model.Paths() {
			byID[pn.Node.ID] = append(byID[pn.Node.ID], pn.Path)
		}
		for _, ps := range byID {
			for _, p := range ps {
				m[p] = ps
			}
		}
		return m
	}
	for k := 1; k <= n; k++ {
		if k != n && k%step != 0 {
			continue
		}
		out := Run(t, Options{Dir: dir, Property: "C04", StopAfterOps: k, NoFinalCheck: true, KeepLog: true, Attribute: true})
		res.SubRuns++
		res.IOSteps += out.IOSteps
		res.Restarts += out.Restarts
		if k == n {
			full = out
		}
		for _, v := range out.Violations { // panics
			res.Violations = append(res.Violations, v)
		}
		d := out.Final
		if d == nil {
			break
		}
		lastOp := &t.Ops[k-1]
		if d.Panic != "" {
			viol("panic", "reader:"+ErrClass(d.Panic), d.Panic, k-1)
			break
		}
		if d.OpenErr != "" {
			cls := ClobberClass(out.Log)
			if cls == "" {
				cls = "open-error:" + ErrClass(d.OpenErr)
			}
			viol("file-no-longer-opens", cls+":after-"+lastOp.Op, fmt.Sprintf("after op %d (%s %s) the file no longer opens: %s", k-1, lastOp.Op, lastOp.Path, d.OpenErr), k-1)
			break
		}
		if prev != nil {
			// every object that existed before and was not a target of ops (prevK..k] must be unchanged
			allowed := map[string]bool{}
			al := aliases(out)
			for j := prevK; j < k; j++ {
				if j < len(out.Results) && !out.Results[j].OK() {
					continue // failed calls are C16's business; they may not change anything either, but are not attributed here
				}
				for p := range touched(&t.Ops[j]) {
					allowed[p] = true
					switch t.Ops[j].Op {
					case "write", "write_raw", "write_attr", "delete_attr", "resize":
						// content operations change the object under all of its names
						for _, a := range al[p] {
							allowed[a] = true
						}
					}
					// creating a link to X allows only the new path: X itself must not change
				}
			}
			for i := range prev.Objs {
				po := &prev.Objs[i]
				if allowed[po.Path] {
					continue
				}
				no := d.ByPath[po.Path]
				if no == nil {
					viol("untouched-object", "vanished:after-"+lastOp.Op, fmt.Sprintf("%s vanished after op %d (%s %s)", po.Path, k-1, lastOp.Op, lastOp.Path), k-1)
					break
				}
				// a group's child list legitimately grows when a child is created in it
				cmp := *no
				if po.Kind == "group" {
					cmp.Children = po.Children
				}
				if ok, why := po.Equal(&cmp); !ok {
					cls := ClobberClass(out.Log)
					if cls == "" {
						cls = why
						if strings.HasPrefix(why, "attr ") {
							cls = "attr"
						}
					}
					viol("untouched-object", cls+":after-"+lastOp.Op, fmt.Sprintf("%s changed (%s) after op %d (%s %s)", po.Path, why, k-1, lastOp.Op, lastOp.Path), k-1)
					break
				}
			}
			if len(res.Violations) > 0 {
				break
			}
		}
		prev, prevK = d, k
	}
	if full != nil {
		res.Ops, res.OKOps = full.Ops, full.OKOps
		res.States = full.States
		nonLatest, objs := false, 0
		latest := ""
		for i, op := range t.Ops {
			if i >= len(full.Results) || !full.Results[i].OK() {
				continue
			}
			switch op.Op {
			case "create_dataset", "create_group":
				objs++
				latest = op.Path
			case "write", "write_attr", "delete_attr", "resize":
				if op.Path != latest {
					nonLatest = true
				}
			}
		}
		res.NonTrivial = objs >= 2 && nonLatest
		kinds := ""
		for i, op := range t.Ops {
			if i < len(full.Results) && full.Results[i].OK() && len(kinds) < 24 {
				kinds += op.Op[:1]
				if strings.HasPrefix(op.Op, "write_a") {
					kinds += "a"
				}
			}
		}
		res.Fingerprint = fmt.Sprintf("sb%d|%d|%s", t.Config.SB, objs, kinds)
	}
	return res
}

func init() {
	harness.Register(&harness.Prop{
		ID: "C04", Engine: "E1", Level: "exploration", Gen: genC04, Exec: execC04,
		Runs:      map[string]int{"quick": 30000, "thorough": 900000},
		Rule:      "seeded interleavings of {create, write, attribute write/delete, hard link, resize, create sibling} over 2-6 live objects, biased to objects that are NOT the most recently created; every prefix of the history (all prefixes up to 12 operations, every third beyond) is executed as its own run ending in Close+Open+full logical dump, and consecutive dumps are compared: an object that was not the target of the operations in between must be unchanged and the file must still open; non-trivial = >= 2 objects and a successful operation on a non-latest object; distinct by (superblock version, object count, sequence of successful op kinds)",
		Technique: "deterministic simulation: prefix re-execution differential (restart after every prefix) with write-log attribution",
		Assumptions: []string{"the state is only inspected after Close+Open (never while the writer is open)",
			"a group's child list may grow when a child is created in it; nothing else of a non-target object may change"},
		RealVsStub:     realVsStub,
		MaxShrinkExecs: 150,
	})
}

// GenForFaults generates a small library-written workload for the fault
// simulator (E2): one of the E1 history kinds.
func GenForFaults(r *rng.R, tier string, steer bool) *trace.Trace {
	switch r.Intn(5) {
	case 0:
		return genC01(r, "quick", steer, 0)
	case 1:
		return genC02(r, "quick", steer, 0)
	case 2:
		return genC03(r, "quick", steer, 0)
	case 3:
		return genC12(r, "quick", steer, 0)
	default:
		return genC10(r, "quick", steer, 0)
	}
}
