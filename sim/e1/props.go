package e1

import (
	"fmt"
	"sort"
	"strings"

	"github.com/scigolib/hdf5/verifsim/harness"
	"github.com/scigolib/hdf5/verifsim/rng"
	"github.com/scigolib/hdf5/verifsim/trace"
)

// RunClassified executes a trace; when the reopened file cannot be opened it
// re-executes with the attributed write log to classify the failure.
func RunClassified(t *trace.Trace, o Options) *Outcome {
	out := Run(t, o)
	if o.KeepLog {
		return out
	}
	for _, v := range out.Violations {
		if v.Oracle == "reopen" {
			o.KeepLog, o.Attribute = true, true
			return Run(t, o)
		}
	}
	return out
}

func toResult(out *Outcome) *harness.RunResult {
	return &harness.RunResult{
		Violations: out.Violations, Probes: out.Probes, IOSteps: out.IOSteps, Restarts: out.Restarts,
		Ops: out.Ops, OKOps: out.OKOps, Fired: out.Fired, States: out.States,
	}
}

var realVsStub = map[string]string{
	"real":      "all of /repo (public API, internal/core, internal/structures, internal/writer), Go runtime, file bytes on tmpfs",
	"simulated": "I/O fault/step layer behind the H3/H4 seams, deterministic buffer pool (H1), restart placement",
	"stub":      "none",
}

// ---------------------------------------------------------------------------
// C01

func genC01(r *rng.R, tier string, steer bool, idx int) *trace.Trace {
	t := &trace.Trace{Config: trace.Config{SB: pickSB(r, steer)}}
	nds := r.Range(1, 4)
	types := allSimpleTypes
	for i := 0; i < nds; i++ {
		path := fmt.Sprintf("/d%d", i)
		var op trace.Op
		if r.Chance(0.12) {
			op = genCompoundOp(r, path)
		} else {
			op = genDatasetOp(r, path, true, types)
		}
		t.Ops = append(t.Ops, op)
		w := trace.Op{Op: "write", Path: path, Data: genData(r)}
		if r.Chance(0.1) {
			w.Op = "write_raw"
		}
		t.Ops = append(t.Ops, w)
	}
	// restart variant: reopen for write and overwrite one dataset
	if r.Chance(0.2) {
		t.Ops = append(t.Ops, trace.Op{Op: "restart", Mode: "open_for_write"})
		t.Ops = append(t.Ops, trace.Op{Op: "write", Path: fmt.Sprintf("/d%d", r.Intn(nds)), Data: genData(r)})
	}
	return t
}

func fpDatasets(t *trace.Trace) string {
	var parts []string
	for _, op := range t.Ops {
		if op.Op == "create_dataset" || op.Op == "create_compound_dataset" {
			div := "nochunk"
			if len(op.Chunk) > 0 {
				div = "div"
				for i, c := range op.Chunk {
					if op.Dims[i]%c != 0 {
						div = "nodiv"
					}
				}
			}
			parts = append(parts, fmt.Sprintf("%s/r%d/%s/%s", op.DType, len(op.Dims), div, strings.Join(op.Filters, "+")))
		}
	}
	sort.Strings(parts)
	return fmt.Sprintf("sb%d|%s", t.Config.SB, strings.Join(parts, ","))
}

func execC01(t *trace.Trace, dir string) *harness.RunResult {
	out := RunClassified(t, Options{Dir: dir, Property: "C01", DetectClobber: true})
	res := toResult(out)
	for k, v := range out.Probes {
		if strings.HasPrefix(k, "values-ok") && v > 0 {
			res.NonTrivial = true
		}
	}
	res.Fingerprint = fpDatasets(t)
	return res
}

func init() {
	harness.Register(&harness.Prop{
		ID: "C01", Engine: "E1", Level: "exploration",
		Gen: genC01, Exec: execC01,
		Runs:      map[string]int{"quick": 200000, "thorough": 6000000},
		Rule:      "seeded traces of 1-4 datasets (type x rank 1-4 x extents x layout x chunk shape x superblock version x data class; compounds of 1-4 numeric members in the version 3 or, 30%, the version 1 datatype encoding, member names of 2 or 7/8/9/15/16/24 bytes), written, restarted (Close/Open, or Close/OpenForWrite+overwrite), read back through every typed read; non-trivial = at least one dataset was written and its values compared after the restart; distinct by (superblock version, multiset of (type, rank, chunk-divides?, filters))",
		Technique: "deterministic simulation: seeded write/restart/read histories against a reference model over the simulated disk",
		Assumptions: []string{"restart = Close then fresh Open; the simulated disk does not model loss of unsynced writes",
			"typed reads that return an error are accepted (statement: 'where no typed read exists the library reports an error')"},
		RealVsStub: realVsStub,
	})
}

// ---------------------------------------------------------------------------
// C02

func genC02(r *rng.R, tier string, steer bool, idx int) *trace.Trace {
	t := &trace.Trace{Config: trace.Config{SB: pickSB(r, steer)}}
	nobj := r.Range(1, 3)
	var objs []string
	for i := 0; i < nobj; i++ {
		if r.Chance(0.25) {
			p := fmt.Sprintf("/g%d", i)
			t.Ops = append(t.Ops, trace.Op{Op: "create_group", Path: p})
			objs = append(objs, p)
		} else {
			p := fmt.Sprintf("/d%d", i)
			op := genDatasetOp(r, p, true, []string{"Int32", "Float64", "Uint8", "String"})
			t.Ops = append(t.Ops, op, trace.Op{Op: "write", Path: p, Data: genData(r)})
			objs = append(objs, p)
		}
	}
	maxOps := 40
	if tier == "thorough" {
		maxOps = 300
	}
	nops := r.Range(1, maxOps)
	if r.Chance(0.5) {
		nops = r.Range(1, 14)
	}
	names := attrNames(r, r.Range(4, 24))
	if r.Chance(0.5) {
		names = names[:min(len(names), 5)] // few names: many overwrites
	}
	big := r.Chance(0.3)
	live := map[string]map[string]bool{}
	for _, o := range objs {
		live[o] = map[string]bool{}
	}
	restarts := 0
	for i := 0; i < nops; i++ {
		obj := rng.Pick(r, objs)
		l := live[obj]
		// bias: grow towards and across 8, then shrink back
		wantDelete := r.Chance(0.3)
		if len(l) >= 10 && r.Chance(0.5) {
			wantDelete = true
		}
		if len(l) == 0 {
			wantDelete = r.Chance(0.05)
		}
		if wantDelete && !strings.HasPrefix(obj, "/g") {
			name := rng.Pick(r, names)
			if len(l) > 0 && r.Chance(0.85) {
				ks := make([]string, 0, len(l))
				for k := range l {
					ks = append(ks, k)
				}
				sort.Strings(ks)
				name = rng.Pick(r, ks)
			}
			t.Ops = append(t.Ops, trace.Op{Op: "delete_attr", Path: obj, Name: name})
			delete(l, name) // optimistic bookkeeping, only used for biasing
		} else {
			name := rng.Pick(r, names)
			t.Ops = append(t.Ops, trace.Op{Op: "write_attr", Path: obj, Name: name, Value: genValue(r, rng.Pick(r, attrKinds), big)})
			l[name] = true
		}
		if r.Chance(0.06) && restarts < 3 {
			t.Ops = append(t.Ops, trace.Op{Op: "restart", Mode: "open_for_write"})
			restarts++
		}
	}
	return t
}

func execC02(t *trace.Trace, dir string) *harness.RunResult {
	out := RunClassified(t, Options{Dir: dir, Property: "C02", SkipValues: true, DetectClobber: true})
	res := toResult(out)
	muts, fp := 0, []string{}
	for i, op := range t.Ops {
		if (op.Op == "write_attr" || op.Op == "delete_attr") && i < len(out.Results) && out.Results[i].OK() {
			muts++
			if len(fp) < 24 {
				fp = append(fp, op.Op[:1])
			}
		}
	}
	nOps := len(fp)
	for k, v := range out.Probes {
		if strings.HasPrefix(k, "attrs-ok") && v > 0 && muts >= 3 {
			res.NonTrivial = true
			fp = append(fp, k)
		}
	}
	sort.Strings(fp[nOps:]) // probe keys arrive in map order
	res.Fingerprint = fmt.Sprintf("sb%d|%d|%s", t.Config.SB, out.Restarts, strings.Join(fp, ""))
	return res
}

func init() {
	harness.Register(&harness.Prop{
		ID: "C02", Engine: "E1", Level: "exploration",
		Gen: genC02, Exec: execC02,
		Runs:      map[string]int{"quick": 150000, "thorough": 4000000},
		Rule:      "seeded histories of WriteAttribute/DeleteAttribute (1-300 calls, 4-24 names incl. 200-byte and UTF-8 names and equal-length siblings that differ in one byte at index 11 or 23, all scalar kinds, strings 0-300 bytes, 1-D slices 1-64) on 1-3 objects with Close/OpenForWrite restarts inside the history; after every restart the attribute map read back must equal the model map; non-trivial = >=3 successful mutations and an attribute map verified after a restart; distinct by (superblock version, restarts, sequence of first 24 successful op kinds, storage classes verified)",
		Technique: "deterministic simulation: seeded attribute histories with restarts vs map model over a simulated disk",
		Assumptions: []string{"a call that returns an error leaves the model unchanged ('last successful write wins')",
			"DeleteAttribute of an absent name may succeed or fail; either way the map is unchanged"},
		RealVsStub: realVsStub,
	})
}

// ---------------------------------------------------------------------------
// C03

func genC03(r *rng.R, tier string, steer bool, idx int) *trace.Trace {
	t := &trace.Trace{Config: trace.Config{SB: pickSB(r, false)}}
	maxOps := 40
	if tier == "thorough" {
		maxOps = 120
	}
	nops := r.Range(2, maxOps)
	if r.Chance(0.4) {
		nops = r.Range(2, 10)
	}
	groups := []string{"/"}
	// "full": one group is filled to and beyond its 32-entry capacity with short
	// names (so the 256-byte name heap is not the first limit to be hit)
	full := r.Chance(0.08)
	if full {
		nops = r.Range(33, 46)
	}
	var objects []string // datasets and groups (link targets)
	var all []string     // every path created (for duplicates)
	nameN := 0
	longNames := r.Chance(0.15) && !full
	wide := r.Chance(0.15) || full // many children in one group: hit the 32-entry capacity
	newName := func() string {
		nameN++
		if longNames && r.Chance(0.5) {
			s := fmt.Sprintf("n%d_", nameN)
			for len(s) < 40+r.Intn(60) {
				s += "xyzxyzxyz"
			}
			return s
		}
		if r.Chance(0.1) && !full {
			return fmt.Sprintf("ü%d", nameN)
		}
		return fmt.Sprintf("n%d", nameN)
	}
	join := func(g, n string) string {
		if g == "/" {
			return "/" + n
		}
		return g + "/" + n
	}
	for i := 0; i < nops; i++ {
		parent := rng.Pick(r, groups)
		if full {
			parent = groups[min(1, len(groups)-1)] // the first group created (or the root)
		} else if wide {
			parent = groups[0]
			if len(groups) > 1 && r.Chance(0.7) {
				parent = groups[1]
			}
		} else if r.Chance(0.5) {
			parent = groups[len(groups)-1] // go deep
		}
		path := join(parent, newName())
		bad := ""
		switch {
		case full && r.Chance(0.97):
		case r.Chance(0.06) && len(all) > 0:
			path = rng.Pick(r, all) // duplicate name
			bad = "duplicate"
		case r.Chance(0.05):
			path = join(join(parent, fmt.Sprintf("missing%d", i)), "x") // missing parent
			bad = "missing-parent"
		}
		k := r.Weighted([]int{30, 30, 12, 8, 6, 4, 3})
		if steer && k >= 5 {
			k = 0 // avoidance (known finding): members of dense groups are not listed by the reader
		}
		var op trace.Op
		switch k {
		case 0:
			op = trace.Op{Op: "create_group", Path: path}
		case 1:
			op = trace.Op{Op: "create_dataset", Path: path, DType: "Int32", Dims: []uint64{2}}
		case 2:
			if len(objects) == 0 {
				op = trace.Op{Op: "create_group", Path: path}
			} else {
				tgt := rng.Pick(r, objects)
				if r.Chance(0.2) && parent != "/" {
					tgt = parent // link to an ancestor (itself)
				}
				op = trace.Op{Op: "hard_link", Path: path, Target: tgt}
			}
		case 3:
			tgt := "/nowhere"
			if len(objects) > 0 && r.Chance(0.7) {
				tgt = rng.Pick(r, objects)
			}
			op = trace.Op{Op: "soft_link", Path: path, Target: tgt}
		case 4:
			op = trace.Op{Op: "ext_link", Path: path, File: "other.h5", Target: "/data"}
		case 5, 6:
			op = trace.Op{Op: "create_dense_group", Path: path}
			if k == 6 {
				op.Op = "create_group_with_links"
			}
			// at most one link: the library iterates the caller's map, so >1 link
			// makes the file bytes depend on Go's map iteration order
			if len(objects) > 0 && r.Chance(0.7) {
				op.Links = []trace.Link{{Name: "l0", Target: rng.Pick(r, objects)}}
			}
		}
		op.Bad = bad
		t.Ops = append(t.Ops, op)
		if bad == "" {
			all = append(all, path)
			switch op.Op {
			case "create_group":
				groups = append(groups, path)
				objects = append(objects, path)
			case "create_dataset":
				objects = append(objects, path)
			case "create_dense_group", "create_group_with_links":
				// also a hard-link target (its object header is rewritten with a
				// reference count message by the first hard link)
				objects = append(objects, path)
			}
		}
	}
	return t
}

func execC03(t *trace.Trace, dir string) *harness.RunResult {
	out := RunClassified(t, Options{Dir: dir, Property: "C03", SkipValues: true, DetectClobber: true})
	res := toResult(out)
	depth, links, kinds := 0, 0, map[string]bool{}
	for i, op := range t.Ops {
		if i < len(out.Results) && out.Results[i].OK() {
			kinds[op.Op] = true
			if d := strings.Count(op.Path, "/"); d > depth {
				depth = d
			}
			if strings.HasSuffix(op.Op, "_link") {
				links++
			}
		}
	}
	ks := make([]string, 0, len(kinds))
	for k := range kinds {
		ks = append(ks, k)
	}
	sort.Strings(ks)
	res.NonTrivial = (depth >= 2 || links >= 1) && out.Final != nil && out.Final.OpenErr == ""
	res.Fingerprint = fmt.Sprintf("sb%d|d%d|l%d|n%d|%s", t.Config.SB, depth, min(links, 5), min(out.OKOps, 40), strings.Join(ks, ","))
	if depth >= 4 {
		res.Probes["depth>=4"]++
	}
	for i, r := range out.Results {
		if r.Err != "" {
			switch {
			case t.Ops[i].Bad != "":
				res.Probes["rejected:"+t.Ops[i].Bad]++
			case strings.Contains(r.Err, "heap is full"):
				res.Probes["capacity:name-heap-full"]++
			case strings.Contains(r.Err, "symbol table") && strings.Contains(r.Err, "full"):
				res.Probes["capacity:group-full"]++
			default:
				res.Probes["rejected:other"]++
			}
		}
	}
	return res
}

func init() {
	harness.Register(&harness.Prop{
		ID: "C03", Engine: "E1", Level: "exploration",
		Gen: genC03, Exec: execC03,
		Runs:      map[string]int{"quick": 200000, "thorough": 6000000},
		Rule:      "seeded creation histories (groups, datasets, hard/soft/external links, dense groups; depth 1-6+, >32 children in one group, long names, duplicate and missing-parent requests, links to ancestors) followed by Close/Open; the reopened tree must equal the model tree and the two rejections the statement demands must be errors; non-trivial = depth >= 2 or >= 1 link, and the file reopened; distinct by (superblock version, depth, links, successful ops, op kinds)",
		Technique: "deterministic simulation: seeded namespace histories with capacity exhaustion vs tree model over a simulated disk",
		Assumptions: []string{"only the two rejections named in the statement (existing name, missing parent) are demanded; any other call may fail (capacity) and then leaves the model unchanged",
			"dense groups are created with at most one link because the library iterates the caller's map (file bytes depend on Go's map order)"},
		RealVsStub: realVsStub,
	})
}
