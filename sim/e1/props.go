package e1

import (
	"fmt"
	"sort"
	"strings"

	"github.com/scigolib/hdf5/verifsim/harness"
	"github.com/scigolib/hdf5/verifsim/rng"
	"github.com/scigolib/hdf5/verifsim/trace"
)

// RunClassified executes a trace; when the reopened file cannot be opened it
// re-executes with the attributed write log to classify the failure.
func RunClassified(t *trace.Trace, o Options) *Outcome {
	out := Run(t, o)
	if o.KeepLog {
		return out
	}
	for _, v := range out.Violations {
		if v.Oracle == "reopen" {
			o.KeepLog, o.Attribute = true, true
			return Run(t, o)
		}
	}
	return out
}

func toResult(out *Outcome) *harness.RunResult {
	return &harness.RunResult{
		Violations: out.Violations, Probes: out.Probes, IOSteps: out.IOSteps, Restarts: out.Restarts,
		Ops: out.Ops, OKOps: out.OKOps, Fired: out.Fired, States: out.States,
	}
}

var realVsStub = map[string]string{
	"real":      "all of /repo (public API, internal/core, internal/structures, internal/writer), Go runtime, file bytes on tmpfs",
	"simulated": "I/O fault/step layer behind the H3/H4 seams, deterministic buffer pool (H1), restart placement",
	"stub":      "none",
}

// ---------------------------------------------------------------------------
// C01

func genC01(r *rng.R, tier string, steer bool, idx int) *trace.Trace {
	t := &trace.Trace{Config: trace.Config{SB: pickSB(r, steer)}}
	nds := r.Range(1, 4)
	types := allSimpleTypes
	for i := 0; i < nds; i++ {
		path := fmt.Sprintf("/d%d", i)
		var op trace.Op
		if r.Chance(0.12) {
			op = genCompoundOp(r, path)
		} else {
			op = genDatasetOp(r, path, true, types)
		}
		t.Ops = append(t.Ops, op)
		w := trace.Op{Op: "write", Path: path, Data: genData(r)}
		if r.Chance(0.1) {
			w.Op = "write_raw"
		}
		t.Ops = append(t.Ops, w)
	}
	// restart variant: reopen for write and overwrite one dataset
	if r.Chance(0.2) {
		t.Ops = append(t.Ops, trace.Op{Op: "restart", Mode: "open_for_write"})
		t.Ops = append(t.Ops, trace.Op{Op: "write", Path: fmt.Sprintf("/d%d", r.Intn(nds)), Data: genData(r)})
	}
	return t
}

func fpDatasets(t *trace.Trace) string {
	var parts []string
	for _, op := range t.Ops {
		if op.Op == "create_dataset" || op.Op == "create_compound_dataset" {
			div := "nochunk"
			if len(op.Chunk) > 0 {
				div = "div"
				for i, c := range op.Chunk {
					if op.Dims[i]%c != 0 {
						div = "nodiv"
					}
				}
			}
			parts = append(parts, fmt.Sprintf("%s/r%d/%s/%s", op.DType, len(op.Dims), div, strings.Join(op.Filters, "+")))
		}
	}
	sort.Strings(parts)
	return fmt.Sprintf("sb%d|%s", t.Config.SB, strings.Join(parts, ","))
}

func execC01(t *trace.Trace, dir string) *harness.RunResult {
	out := RunClassified(t, Options{Dir: dir, Property: "C01"})
	res := toResult(out)
	for k, v := range out.Probes {
		if strings.HasPrefix(k, "values-ok") && v > 0 {
			res.NonTrivial = true
		}
	}
	res.Fingerprint = fpDatasets(t)
	return res
}

func init() {
	harness.Register(&harness.Prop{
		ID: "C01", Engine: "E1", Level: "exploration",
		Gen: genC01, Exec: execC01,
		Runs:      map[string]int{"quick": 24000, "thorough": 600000},
		Rule:      "seeded traces of 1-4 datasets (type x rank 1-4 x extents x layout x chunk shape x superblock version x data class), written, restarted (Close/Open, or Close/OpenForWrite+overwrite), read back through every typed read; non-trivial = at least one dataset was written and its values compared after the restart; distinct by (superblock version, multiset of (type, rank, chunk-divides?, filters))",
		Technique: "deterministic simulation: seeded write/restart/read histories against a reference model over the simulated disk",
		Assumptions: []string{"restart = Close then fresh Open; the simulated disk does not model loss of unsynced writes",
			"typed reads that return an error are accepted (statement: 'where no typed read exists the library reports an error')"},
		RealVsStub: realVsStub,
	})
}
