package e1

import (
	"bytes"
	"fmt"
	"os"
	"sort"
	"strings"

	"github.com/scigolib/hdf5/internal/core"
	"github.com/scigolib/hdf5/verifsim/model"
	"github.com/scigolib/hdf5/verifsim/specdec"
	"github.com/scigolib/hdf5/verifsim/trace"
)

// SpecOutcome is what the independent decoder reports about a closed file.
type SpecOutcome struct {
	Violations  []trace.Violation
	Kinds       map[string]int // structure kinds visited (extent kinds)
	Limitations []string
	Findings    map[string]int
	Objects     int
}

// SpecCheck decodes the closed file at path with the independent,
// from-the-specification decoder and compares what it recovers with the model:
// conformance findings, extents in bounds / below EOF / disjoint, tree, dataset
// shapes, types, stored element bytes, attributes, and vlen elements resolved
// through the global heap. mode selects the scope: "c05" (everything) or
// "c12" (vlen datasets and heap collections only).
func SpecCheck(path string, m *model.Model, prop, mode string) *SpecOutcome {
	so := &SpecOutcome{Kinds: map[string]int{}, Findings: map[string]int{}}
	b, err := os.ReadFile(path)
	if err != nil {
		return so
	}
	r := specdec.Decode(b)
	so.Limitations = r.Limitations
	so.Objects = len(r.Objects)
	for _, e := range r.Extents {
		so.Kinds[e.Kind]++
	}
	add := func(oracle, class, detail string) {
		so.Violations = append(so.Violations, trace.Violation{Property: prop, Oracle: oracle, Class: class, Detail: detail})
	}
	seen := map[string]bool{}
	for _, f := range r.Findings {
		so.Findings[f.Class]++
		if mode == "c12" && !strings.HasPrefix(f.Class, "gcol") && !strings.HasPrefix(f.Class, "vlen") && f.Class != "decoder-panic" {
			continue
		}
		if seen[f.Class] {
			continue
		}
		seen[f.Class] = true
		add("spec", f.Class, fmt.Sprintf("decoder finding at %#x: %s", f.Addr, f.Detail))
	}
	if m == nil {
		return so
	}
	// decoded tree
	got := map[string]*specdec.Object{}
	gotLink := map[string]*specdec.Link{}
	r.Walk(func(p string, o *specdec.Object, l *specdec.Link) {
		if _, dup := got[p]; !dup {
			got[p] = o
			gotLink[p] = l
		}
	})
	for _, pn := range m.Paths() {
		n := pn.Node
		o, present := got[pn.Path]
		if mode == "c12" && (n.DS == nil || n.DS.DT.Class != "vlen") {
			continue
		}
		if !present {
			add("spec-tree", "missing:"+n.Kind, "decoder does not find "+pn.Path)
			continue
		}
		switch n.Kind {
		case "group":
			if o == nil || o.Kind != "group" {
				add("spec-tree", "kind:group", pn.Path)
			}
		case "dataset":
			if o == nil || o.Kind != "dataset" {
				add("spec-tree", "kind:dataset", pn.Path)
				continue
			}
			specDataset(pn.Path, n.DS, o, add)
			if mode == "c12" {
				libVLen(pn.Path, n.DS, o, b, r.OffsetSize, add)
			}
		}
		if o != nil && (n.Kind == "group" || n.Kind == "dataset") && mode != "c12" {
			specAttrs(pn.Path, n, o, add)
		}
	}
	if mode != "c12" {
		want := map[string]bool{}
		for _, pn := range m.Paths() {
			want[pn.Path] = true
		}
		extra := []string{}
		for p := range got {
			if !want[p] {
				extra = append(extra, p)
			}
		}
		sort.Strings(extra)
		for _, p := range extra {
			// soft/external links are written as pseudo objects holding one link
			// message; the decoder reports them as <path>/<name>
			parent, _ := model.Split(p)
			if pn := m.Lookup(parent); pn != nil && (pn.Kind == "soft" || pn.Kind == "ext") {
				continue
			}
			add("spec-tree", "extra-path", "decoder finds unexpected path "+p)
			break
		}
	}
	return so
}

func specDataset(path string, ds *model.Dataset, o *specdec.Object, add func(oracle, class, detail string)) {
	tc := ds.DT.Class
	if o.Type == nil {
		add("spec-dataset", "no-datatype", path)
		return
	}
	if !sameDims(o.Dims, ds.Dims) {
		add("spec-dataset", "shape", fmt.Sprintf("%s: decoder sees dims %v, want %v", path, o.Dims, ds.Dims))
		return
	}
	if o.Type.Class != classNum[tc] {
		add("spec-dataset", fmt.Sprintf("class:%s-as-%d", tc, o.Type.Class), path)
		return
	}
	if int(o.Type.Size) != ds.DT.Size {
		add("spec-dataset", "size:"+tc, path)
		return
	}
	if tc == "integer" && o.Type.Signed != ds.DT.Signed {
		add("spec-dataset", "signedness", path)
	}
	if !ds.Written {
		return
	}
	if tc == "vlen" {
		if o.Type.VLenString != (ds.DT.BaseKind == "string") {
			add("spec-dataset", "vlen-kind", path)
		}
		if o.Type.Base != nil && ds.DT.BaseKind != "string" && int(o.Type.Base.Size) != ds.DT.BaseSize {
			add("spec-dataset", "vlen-base-size", path)
		}
		if len(o.VLen) != len(ds.VLen) {
			add("spec-dataset", "vlen-count", fmt.Sprintf("%s: %d elements resolved (%s), want %d", path, len(o.VLen), o.DataErr, len(ds.VLen)))
			return
		}
		for i := range ds.VLen {
			if !bytes.Equal(o.VLen[i], ds.VLen[i]) {
				add("spec-dataset", "vlen-element", fmt.Sprintf("%s: element %d has %d bytes, want %d (%x.. vs %x..)", path, i, len(o.VLen[i]), len(ds.VLen[i]), head(o.VLen[i]), head(ds.VLen[i])))
				return
			}
		}
		return
	}
	if o.DataErr != "" {
		cls := "data-error"
		if len(ds.Filters) > 0 {
			cls = "data-error:filtered"
		}
		add("spec-dataset", cls, path+": "+o.DataErr)
		return
	}
	if ds.Regrown {
		return // covered by C13's own known finding; the stored bytes are legitimately different from the model
	}
	if !bytes.Equal(o.Data, ds.Raw) {
		cls := layoutClass(ds)
		add("spec-dataset", "bytes:"+cls, fmt.Sprintf("%s: decoder recovers %d bytes that differ from the %d written (%s %v chunk %v)", path, len(o.Data), len(ds.Raw), ds.DT.Name, ds.Dims, ds.Chunk))
	}
}

func head(b []byte) []byte {
	if len(b) > 8 {
		return b[:8]
	}
	return b
}

func sameDims(a, b []uint64) bool {
	if len(a) != len(b) {
		return false
	}
	for i := range a {
		if a[i] != b[i] {
			return false
		}
	}
	return true
}

func specAttrs(path string, n *model.Node, o *specdec.Object, add func(oracle, class, detail string)) {
	got := map[string]*specdec.Attr{}
	for i := range o.Attrs {
		a := &o.Attrs[i]
		if _, dup := got[a.Name]; dup {
			add("spec-attrs", "duplicate", path+"@"+a.Name)
			return
		}
		got[a.Name] = a
	}
	for name, w := range n.Attrs {
		g := got[name]
		if g == nil {
			add("spec-attrs", "missing:"+o.AttrStorage, fmt.Sprintf("%s@%s (decoder sees %d of %d)", path, name, len(got), len(n.Attrs)))
			return
		}
		if g.Type == nil || g.Type.Class != classNum[w.Class] || int(g.Type.Size) != w.Size {
			add("spec-attrs", "type", path+"@"+name)
			return
		}
		if !sameDims(g.Dims, w.Dims) {
			add("spec-attrs", "shape", path+"@"+name)
			return
		}
		if !bytes.Equal(g.Data, w.Data) {
			add("spec-attrs", "bytes", path+"@"+name)
			return
		}
	}
	for name := range got {
		if _, ok := n.Attrs[name]; !ok {
			add("spec-attrs", "extra:"+o.AttrStorage, path+"@"+name)
			return
		}
	}
}

// libVLen reads every element of a written variable-length dataset through the
// library's own global-heap readers (core.ParseGlobalHeapReference,
// core.ReadGlobalHeapCollection, GetObject - the route the library's compound
// and attribute readers take) and compares it with the written bytes. The raw
// element records come from the independent decoder (the public API has no
// typed read for vlen datasets).
func libVLen(path string, ds *model.Dataset, o *specdec.Object, file []byte, offsetSize int, add func(oracle, class, detail string)) {
	if ds.DT.Class != "vlen" || !ds.Written || o.Type == nil || o.DataErr != "" {
		return
	}
	es := int(o.Type.Size)
	if es < offsetSize+4 || len(o.Data) != es*len(ds.VLen) || (offsetSize != 4 && offsetSize != 8) {
		return // the decoder's own comparison reports layout problems
	}
	rd := bytes.NewReader(file)
	colls := map[uint64]*core.GlobalHeapCollection{}
	for i := range ds.VLen {
		ref, err := core.ParseGlobalHeapReference(o.Data[es*i:es*(i+1)], offsetSize)
		if err != nil {
			add("lib-vlen-reader", "reference-error", fmt.Sprintf("%s element %d: %v", path, i, err))
			return
		}
		if ref.HeapAddress == 0 {
			if len(ds.VLen[i]) != 0 {
				add("lib-vlen-reader", "null-reference-for-non-empty-element", fmt.Sprintf("%s element %d", path, i))
				return
			}
			continue
		}
		c := colls[ref.HeapAddress]
		if c == nil {
			c, err = core.ReadGlobalHeapCollection(rd, ref.HeapAddress, offsetSize)
			if err != nil {
				add("lib-vlen-reader", "collection-error:"+ErrClass(err.Error()), fmt.Sprintf("%s element %d (%d bytes): collection at %#x: %v", path, i, len(ds.VLen[i]), ref.HeapAddress, err))
				return
			}
			colls[ref.HeapAddress] = c
		}
		obj, err := c.GetObject(ref.ObjectIndex)
		if err != nil {
			add("lib-vlen-reader", "object-error", fmt.Sprintf("%s element %d: %v", path, i, err))
			return
		}
		if !bytes.Equal(obj.Data, ds.VLen[i]) {
			add("lib-vlen-reader", "element-differs", fmt.Sprintf("%s element %d: library reader returns %d bytes, %d were written", path, i, len(obj.Data), len(ds.VLen[i])))
			return
		}
	}
}
