package e1

import (
	"fmt"
	"math"
	"reflect"
	"sort"
	"strings"

	"github.com/scigolib/hdf5/internal/core"
	"github.com/scigolib/hdf5/verifsim/model"
)

var classNum = map[string]int{
	"integer": int(core.DatatypeFixed), "float": int(core.DatatypeFloat), "string": int(core.DatatypeString),
	"compound": int(core.DatatypeCompound), "reference": int(core.DatatypeReference), "enum": int(core.DatatypeEnum),
	"vlen": int(core.DatatypeVarLen), "array": int(core.DatatypeArray), "opaque": int(core.DatatypeOpaque),
}

func layoutClass(ds *model.Dataset) string {
	if len(ds.Chunk) == 0 {
		return "contiguous"
	}
	multi, partial := false, false
	for i, c := range ds.Chunk {
		if i < len(ds.Dims) && c > 0 {
			if ds.Dims[i] > c {
				multi = true
			}
			if ds.Dims[i]%c != 0 {
				partial = true
			}
		}
	}
	s := "chunked"
	if multi {
		s += "-multi"
	} else {
		s += "-single"
	}
	if partial {
		s += "-partial"
	}
	if len(ds.Filters) > 0 {
		f := append([]string(nil), ds.Filters...)
		for i := range f {
			if strings.HasPrefix(f[i], "gzip") {
				f[i] = "gzip"
			}
		}
		s += "-" + strings.Join(f, "+")
	}
	return s
}

// compare checks the dump of the reopened file against the model and records
// violations. Only what the property statements demand is checked.
func (e *Exec) compare(d *Dump) {
	if ps := d.Panics(); len(ps) > 0 {
		e.violate("panic", "reader:"+ErrClass(ps[0]), "reader panicked: "+ps[0])
		return
	}
	if d.OpenErr != "" {
		cls := e.clobberClass()
		if cls == "" {
			cls = "open-error:" + ErrClass(d.OpenErr)
		}
		e.violate("reopen", cls, "reopen failed: "+d.OpenErr)
		return
	}
	paths := e.m.Paths()
	want := map[string]*model.Node{}
	for _, pn := range paths {
		want[pn.Path] = pn.Node
	}
	// tree
	underDense := func(p string) bool {
		for {
			parent, _ := model.Split(p)
			if parent == "" || parent == "/" || parent == p {
				return false
			}
			if n := e.m.Lookup(parent); n != nil && n.Dense {
				return true
			}
			p = parent
		}
	}
	for _, pn := range paths {
		od := d.ByPath[pn.Path]
		if od == nil {
			kind := pn.Node.Kind
			if pn.Node.Dense {
				kind = "dense-group"
			}
			if underDense(pn.Path) {
				kind = "member-of-dense-group"
			}
			e.violate("tree", "missing:"+kind, "path "+pn.Path+" missing after reopen")
			continue
		}
		wk := pn.Node.Kind
		if wk == "soft" || wk == "ext" {
			continue // presence is all that can be observed
		}
		if od.Kind != wk {
			e.violate("tree", "kind:"+wk+"-as-"+od.Kind, "path "+pn.Path)
			continue
		}
	}
	for _, od := range d.Objs {
		if _, ok := want[od.Path]; !ok {
			e.violate("tree", "extra-path", "unexpected path "+od.Path)
		}
		seen := map[string]bool{}
		for _, c := range od.Children {
			if seen[c] {
				e.violate("tree", "duplicate-name", "name "+c+" twice in "+od.Path)
				break
			}
			seen[c] = true
		}
	}
	// hard links resolve to the same object
	byID := map[int][]string{}
	for _, pn := range paths {
		if pn.Cut || underDense(pn.Path) {
			continue
		}
		if pn.Node.Kind == "dataset" || pn.Node.Kind == "group" {
			byID[pn.Node.ID] = append(byID[pn.Node.ID], pn.Path)
		}
	}
	for _, ps := range byID {
		if len(ps) < 2 {
			continue
		}
		a := d.ByPath[ps[0]]
		for _, p := range ps[1:] {
			b := d.ByPath[p]
			if a == nil || b == nil || a.Kind != b.Kind {
				continue
			}
			if a.Kind == "dataset" && a.Addr != b.Addr {
				e.violate("tree", "hardlink-different-object", ps[0]+" vs "+p)
			}
			if a.Kind == "group" && !sameStrings(a.Children, b.Children) {
				e.violate("tree", "hardlink-group-differs", ps[0]+" vs "+p)
			}
		}
	}
	// datasets and attributes
	done := map[int]bool{}
	for _, pn := range paths {
		od := d.ByPath[pn.Path]
		if od == nil || done[pn.Node.ID] {
			continue
		}
		done[pn.Node.ID] = true
		if pn.Node.Kind == "dataset" && od.Kind == "dataset" {
			e.compareDataset(pn.Path, pn.Node.DS, od)
		}
		if pn.Node.Kind == "dataset" || pn.Node.Kind == "group" {
			if od.Kind == pn.Node.Kind {
				e.compareAttrs(pn.Path, pn.Node, od)
			}
		}
	}
}

func sameStrings(a, b []string) bool {
	x := append([]string(nil), a...)
	y := append([]string(nil), b...)
	sort.Strings(x)
	sort.Strings(y)
	return reflect.DeepEqual(x, y)
}

func (e *Exec) compareDataset(path string, ds *model.Dataset, od *ObjDump) {
	lc := layoutClass(ds)
	if ds.Regrown {
		lc = "regrown:" + lc
	}
	tc := ds.DT.Class
	if od.MetaErr != "" || od.InfoErr != "" {
		e.violate("dataset-meta", "info-error:"+tc+":"+ErrClass(od.MetaErr+od.InfoErr), path+": "+od.MetaErr+od.InfoErr)
		return
	}
	if !reflect.DeepEqual(od.Dims, ds.Dims) {
		e.violate("dataset-meta", "shape:"+lc, fmt.Sprintf("%s: dims %v want %v", path, od.Dims, ds.Dims))
		return
	}
	if od.Class != classNum[tc] {
		e.violate("dataset-meta", fmt.Sprintf("class:%s-as-%d", tc, od.Class), path)
		return
	}
	if int(od.Size) != ds.DT.Size {
		e.violate("dataset-meta", "size:"+tc, fmt.Sprintf("%s: size %d want %d", path, od.Size, ds.DT.Size))
		return
	}
	if tc == "integer" {
		if signed := od.BitField&0x08 != 0; signed != ds.DT.Signed {
			e.violate("dataset-meta", fmt.Sprintf("signedness:want-signed=%v", ds.DT.Signed), path)
		}
	}
	if !ds.Written || e.o.SkipValues {
		return
	}
	switch tc {
	case "integer", "float":
		if od.F64Err != "" {
			e.probe("read-error:" + ds.DT.Name)
			// Read() is documented to support float64, float32, int32 and int64:
			// for those a typed read exists and an error is a violation. For the
			// other integer types "where no typed read exists the library reports
			// an error" applies.
			switch ds.DT.Name {
			case "Float64", "Float32", "Int32", "Int64":
				e.violate("dataset-values", "read-error:"+readErrLayout(ds)+":"+ErrClass(od.F64Err), fmt.Sprintf("%s (%s %v chunk %v): Read failed: %s", path, ds.DT.Name, ds.Dims, ds.Chunk, od.F64Err))
			}
			return
		}
		want := model.WidenToFloat64(ds.DT, ds.Raw)
		if len(od.F64) != len(want) {
			e.violate("dataset-values", "length:"+lc, fmt.Sprintf("%s: %d values want %d", path, len(od.F64), len(want)))
			return
		}
		for i := range want {
			if math.Float64bits(od.F64[i]) != math.Float64bits(want[i]) {
				cls := lc
				if tc == "integer" && !ds.DT.Signed && want[i] >= 0 && od.F64[i] < 0 {
					cls = "unsigned-as-signed"
				}
				e.violate("dataset-values", cls, fmt.Sprintf("%s (%s %v chunk %v): element %d = %v want %v", path, ds.DT.Name, ds.Dims, ds.Chunk, i, od.F64[i], want[i]))
				return
			}
		}
		e.probe("values-ok:" + lc)
		// the library's other read for these types: blocks through ReadSlice
		for _, pr := range od.Parts {
			if strings.HasPrefix(pr.Err, PanicMark) {
				e.violate("panic", "read-slice:"+ErrClass(pr.Err), pr.Err)
				return
			}
			if pr.Err != "" {
				e.probe("read-slice-error:" + ds.DT.Name)
				continue
			}
			exp := blockOf(want, ds.Dims, pr.Start, pr.Count)
			if len(exp) != len(pr.Vals) {
				e.violate("dataset-values", "slice-length:"+lc, fmt.Sprintf("%s: ReadSlice(%v,%v) returned %d values, want %d", path, pr.Start, pr.Count, len(pr.Vals), len(exp)))
				return
			}
			for i := range exp {
				if math.Float64bits(exp[i]) != math.Float64bits(pr.Vals[i]) {
					// Two defects of the pinned tree get their own, narrow classes so that
					// they do not hide anything else: (1) a chunked selection is returned in
					// chunk order instead of row-major order - same values, other order;
					// (2) partial selections of contiguous datasets of rank >= 3.
					cls := "slice:" + lc
					switch {
					case len(ds.Chunk) > 0 && sameMultiset(exp, pr.Vals):
						cls = "slice-order:chunked"
					case len(ds.Chunk) == 0 && len(ds.Dims) >= 3:
						cls = "slice:contiguous-rank3plus"
					}
					e.violate("dataset-values", cls, fmt.Sprintf("%s (%s %v chunk %v): ReadSlice(%v,%v) element %d = %v want %v", path, ds.DT.Name, ds.Dims, ds.Chunk, pr.Start, pr.Count, i, pr.Vals[i], exp[i]))
					return
				}
			}
			e.probe("slice-ok:" + lc)
		}
	case "string":
		if od.StrsErr != "" {
			e.probe("read-error:String")
			// ReadStrings is documented to support fixed-length strings.
			e.violate("dataset-values", "read-error:strings:"+readErrLayout(ds)+":"+ErrClass(od.StrsErr), path+": ReadStrings failed: "+od.StrsErr)
			return
		}
		n := len(ds.Raw) / ds.DT.Size
		if len(od.Strs) != n {
			e.violate("dataset-values", "strings-length:"+lc, path)
			return
		}
		for i := 0; i < n; i++ {
			el := ds.Raw[i*ds.DT.Size : (i+1)*ds.DT.Size]
			w := string(trimNul(el))
			if od.Strs[i] != w {
				e.violate("dataset-values", "strings:"+lc, fmt.Sprintf("%s: string %d = %q want %q", path, i, od.Strs[i], w))
				return
			}
		}
		e.probe("values-ok:string")
	case "compound":
		if od.CompErr != "" {
			e.probe("read-error:Compound")
			// ReadCompound is documented to support numeric members; the member
			// types with a documented numeric read are the 4- and 8-byte ones.
			for _, f := range ds.Op.Fields {
				switch f.Kind {
				case "int32", "int64", "float32", "float64", "uint32", "uint64":
				default:
					return
				}
			}
			e.violate("dataset-values", "read-error:compound:"+ErrClass(od.CompErr), path+": ReadCompound failed: "+od.CompErr)
			return
		}
		n := len(ds.Raw) / ds.DT.Size
		if len(od.Comp) != n {
			e.violate("dataset-values", "compound-length", path)
			return
		}
		for i := 0; i < n; i++ {
			rec := ds.Raw[i*ds.DT.Size : (i+1)*ds.DT.Size]
			for _, f := range ds.Op.Fields {
				b, _ := model.FieldBasic(f.Kind)
				got, ok := od.Comp[i][f.Name]
				if !ok {
					e.violate("dataset-values", "compound-field-missing", path+"."+f.Name)
					return
				}
				w := model.NumSlice(b.BaseKind, b.Size, rec[f.Offset:int(f.Offset)+b.Size])
				wv := reflect.ValueOf(w).Index(0).Interface()
				// statement: compound members are byte-exact
				if !sameBytes(got, rec[f.Offset:int(f.Offset)+b.Size]) {
					e.violate("dataset-values", "compound-field:"+f.Kind, fmt.Sprintf("%s[%d].%s = %v (%T) want %v (%T)", path, i, f.Name, got, got, wv, wv))
					return
				}
			}
		}
		e.probe("values-ok:compound")
	case "vlen":
		if ds.DT.BaseKind == "string" {
			if od.StrsErr != "" {
				e.probe("read-error:VLenString")
				return
			}
			if len(od.Strs) != len(ds.VLen) {
				e.violate("dataset-values", "vlen-length", path)
				return
			}
			for i, b := range ds.VLen {
				if od.Strs[i] != string(b) {
					e.violate("dataset-values", "vlen-string", fmt.Sprintf("%s: element %d = %q want %q", path, i, trunc(od.Strs[i]), trunc(string(b))))
					return
				}
			}
			e.probe("values-ok:vlen-string")
		}
	}
}

func trunc(s string) string {
	if len(s) > 40 {
		return s[:40] + "..."
	}
	return s
}

// sameNumber compares two numeric interface values for exact equality of value
// and, for floats, of bits. The Go types may differ in width only if the value
// is exactly representable (the compound reader documents no widening, so the
// comparison is strict on value, lenient on Go type).
func sameNumber(a, b interface{}) bool {
	fa, ia, ua, ka := numParts(a)
	fb, ib, ub, kb := numParts(b)
	if ka == 0 || kb == 0 {
		return reflect.DeepEqual(a, b)
	}
	if ka == 'f' || kb == 'f' {
		if ka != kb {
			return false
		}
		return math.Float64bits(fa) == math.Float64bits(fb)
	}
	if ka == 'i' && kb == 'i' {
		return ia == ib
	}
	if ka == 'u' && kb == 'u' {
		return ua == ub
	}
	// mixed signedness: equal only if both non-negative and same magnitude
	if ka == 'i' {
		return ia >= 0 && uint64(ia) == ub
	}
	return ib >= 0 && uint64(ib) == ua
}

func numParts(v interface{}) (float64, int64, uint64, byte) {
	switch x := v.(type) {
	case float32:
		return float64(x), 0, 0, 'f'
	case float64:
		return x, 0, 0, 'f'
	case int8:
		return 0, int64(x), 0, 'i'
	case int16:
		return 0, int64(x), 0, 'i'
	case int32:
		return 0, int64(x), 0, 'i'
	case int64:
		return 0, x, 0, 'i'
	case int:
		return 0, int64(x), 0, 'i'
	case uint8:
		return 0, 0, uint64(x), 'u'
	case uint16:
		return 0, 0, uint64(x), 'u'
	case uint32:
		return 0, 0, uint64(x), 'u'
	case uint64:
		return 0, 0, x, 'u'
	}
	return 0, 0, 0, 0
}

func trimNul(b []byte) []byte {
	for i, c := range b {
		if c == 0 {
			return b[:i]
		}
	}
	return b
}

func storageClass(n int) string {
	if n > 8 {
		return "dense"
	}
	return "compact"
}

func (e *Exec) compareAttrs(path string, n *model.Node, od *ObjDump) {
	if od.AttrsErr != "" {
		e.violate("attr-map", "attributes-error:"+n.Kind+":"+ErrClass(od.AttrsErr), path+": "+od.AttrsErr)
		return
	}
	sc := n.Kind + ":" + storageClass(len(n.Attrs))
	got := map[string]*AttrDump{}
	for i := range od.Attrs {
		a := &od.Attrs[i]
		if _, dup := got[a.Name]; dup {
			e.violate("attr-map", "duplicate-name:"+sc, path+"@"+a.Name)
			return
		}
		got[a.Name] = a
	}
	for name, w := range n.Attrs {
		g := got[name]
		if g == nil {
			e.violate("attr-map", "missing:"+sc, fmt.Sprintf("%s@%s missing (have %d want %d)", path, name, len(got), len(n.Attrs)))
			return
		}
		if !g.HasType || g.Class != classNum[w.Class] || int(g.Size) != w.Size || (w.Class == "integer" && g.Signed != w.Signed) {
			e.violate("attr-map", "type:"+w.Kind, fmt.Sprintf("%s@%s class %d size %d signed %v want %s/%d/%v", path, name, g.Class, g.Size, g.Signed, w.Class, w.Size, w.Signed))
			return
		}
		if !reflect.DeepEqual(g.Dims, w.Dims) {
			e.violate("attr-map", "shape:"+w.Kind, fmt.Sprintf("%s@%s dims %v want %v", path, name, g.Dims, w.Dims))
			return
		}
		if string(g.Data) != string(w.Data) {
			e.violate("attr-map", "bytes:"+sc, fmt.Sprintf("%s@%s data %x want %x", path, name, g.Data, w.Data))
			return
		}
	}
	for name := range got {
		if _, ok := n.Attrs[name]; !ok {
			e.violate("attr-map", "extra:"+sc, fmt.Sprintf("%s@%s unexpected (have %d want %d)", path, name, len(got), len(n.Attrs)))
			return
		}
	}
	if od.Kind == "dataset" && od.NamesErr == "" {
		if len(od.Names) != len(n.Attrs) {
			e.violate("attr-map", "list-length:"+sc, path)
		}
	}
	if len(n.Attrs) > 0 {
		e.probe("attrs-ok:" + sc)
	}
}

// clobberClass analyses the write log for a write that straddles extents
// established by earlier writes (in-place growth over a neighbour) and returns
// an attribution class, or "" if none is found / no log is kept.
func (e *Exec) clobberClass() string {
	return ClobberClass(e.sim.Log)
}

// sameBytes reports whether the numeric value v, encoded little-endian at its
// own width, equals the stored member bytes.
func sameBytes(v interface{}, stored []byte) bool {
	rv := reflect.ValueOf(v)
	var bits uint64
	var width int
	if f, ok := v.(float32); ok { // no float64 round trip: it would quiet a signalling NaN
		b := math.Float32bits(f)
		return len(stored) == 4 && byte(b) == stored[0] && byte(b>>8) == stored[1] && byte(b>>16) == stored[2] && byte(b>>24) == stored[3]
	}
	switch rv.Kind() {
	case reflect.Int8, reflect.Int16, reflect.Int32, reflect.Int64, reflect.Int:
		bits, width = uint64(rv.Int()), int(rv.Type().Size())
	case reflect.Uint8, reflect.Uint16, reflect.Uint32, reflect.Uint64:
		bits, width = rv.Uint(), int(rv.Type().Size())
	case reflect.Float32:
		bits, width = uint64(math.Float32bits(float32(rv.Float()))), 4
	case reflect.Float64:
		bits, width = math.Float64bits(rv.Float()), 8
	default:
		return false
	}
	if width != len(stored) {
		return false
	}
	for i := 0; i < width; i++ {
		if byte(bits>>(8*uint(i))) != stored[i] {
			return false
		}
	}
	return true
}

// readErrLayout is the layout part of a read-error class: every filtered
// dataset is one class (the cause is in the pipeline, not in the chunk shape).
func readErrLayout(ds *model.Dataset) string {
	if len(ds.Filters) > 0 {
		return "filtered"
	}
	return layoutClass(ds)
}

// blockOf extracts the row-major block [start, start+count) from a row-major array of shape dims.
func blockOf(all []float64, dims, start, count []uint64) []float64 {
	n := uint64(1)
	for _, c := range count {
		n *= c
	}
	out := make([]float64, 0, n)
	idx := make([]uint64, len(dims))
	for k := uint64(0); k < n; k++ {
		off := uint64(0)
		for i := range dims {
			off = off*dims[i] + start[i] + idx[i]
		}
		if off < uint64(len(all)) {
			out = append(out, all[off])
		}
		for i := len(dims) - 1; i >= 0; i-- {
			idx[i]++
			if idx[i] < count[i] {
				break
			}
			idx[i] = 0
		}
	}
	return out
}

func sameMultiset(a, b []float64) bool {
	if len(a) != len(b) {
		return false
	}
	x := make([]uint64, len(a))
	y := make([]uint64, len(b))
	for i := range a {
		x[i], y[i] = math.Float64bits(a[i]), math.Float64bits(b[i])
	}
	sort.Slice(x, func(i, j int) bool { return x[i] < x[j] })
	sort.Slice(y, func(i, j int) bool { return y[i] < y[j] })
	for i := range x {
		if x[i] != y[i] {
			return false
		}
	}
	return true
}
