// Package e1 is the history simulator: it executes explicit traces through the
// library's public write API against the simulated disk, with restarts
// (Close/Open, Close/OpenForWrite) as operations, and compares what the public
// read API returns after each restart with the reference model.
package e1

import (
	"crypto/sha256"
	"encoding/hex"
	"fmt"
	"os"
	"path/filepath"
	"strconv"
	"strings"
	"time"

	hdf5 "github.com/scigolib/hdf5"
	"github.com/scigolib/hdf5/internal/core"
	"github.com/scigolib/hdf5/internal/structures"
	"github.com/scigolib/hdf5/verifsim/disk"
	"github.com/scigolib/hdf5/verifsim/model"
	"github.com/scigolib/hdf5/verifsim/trace"
)

// Datatypes maps constant names to hdf5.Datatype values.
var Datatypes = map[string]hdf5.Datatype{
	"Int8": hdf5.Int8, "Int16": hdf5.Int16, "Int32": hdf5.Int32, "Int64": hdf5.Int64,
	"Uint8": hdf5.Uint8, "Uint16": hdf5.Uint16, "Uint32": hdf5.Uint32, "Uint64": hdf5.Uint64,
	"Float32": hdf5.Float32, "Float64": hdf5.Float64, "String": hdf5.String,
	"ArrayInt8": hdf5.ArrayInt8, "ArrayInt16": hdf5.ArrayInt16, "ArrayInt32": hdf5.ArrayInt32, "ArrayInt64": hdf5.ArrayInt64,
	"ArrayUint8": hdf5.ArrayUint8, "ArrayUint16": hdf5.ArrayUint16, "ArrayUint32": hdf5.ArrayUint32, "ArrayUint64": hdf5.ArrayUint64,
	"ArrayFloat32": hdf5.ArrayFloat32, "ArrayFloat64": hdf5.ArrayFloat64,
	"EnumInt8": hdf5.EnumInt8, "EnumInt16": hdf5.EnumInt16, "EnumInt32": hdf5.EnumInt32, "EnumInt64": hdf5.EnumInt64,
	"EnumUint8": hdf5.EnumUint8, "EnumUint16": hdf5.EnumUint16, "EnumUint32": hdf5.EnumUint32, "EnumUint64": hdf5.EnumUint64,
	"ObjectReference": hdf5.ObjectReference, "RegionReference": hdf5.RegionReference, "Opaque": hdf5.Opaque,
	"VLenString": hdf5.VLenString, "VLenInt32": hdf5.VLenInt32, "VLenInt64": hdf5.VLenInt64,
	"VLenFloat32": hdf5.VLenFloat32, "VLenFloat64": hdf5.VLenFloat64, "VLenUint32": hdf5.VLenUint32, "VLenUint64": hdf5.VLenUint64,
	"Bogus": hdf5.Datatype(9999),
}

// OpResult is the outcome of one operation.
type OpResult struct {
	Err     string `json:"err,omitempty"`
	Panic   string `json:"panic,omitempty"`
	Skipped bool   `json:"skipped,omitempty"`
}

func (r OpResult) OK() bool { return r.Err == "" && r.Panic == "" && !r.Skipped }

// Outcome is everything observed while executing one trace.
type Outcome struct {
	Results    []OpResult
	Violations []trace.Violation
	Probes     map[string]int
	Restarts   int
	IOSteps    int
	Fired      map[string]int
	FiredSteps []int
	States     []uint64 // model state hashes after each step
	Final      *Dump
	FileSize   int64
	FileHash   string
	OKOps      int
	Ops        int
	Log        []disk.LogEntry
	// Results of faulted ops for C17
	ErrAtFault  bool
	Model       *model.Model // nil when the model could no longer represent the file
	Path        string
	FiredOps    []int
	FiredFns    []string
	WriterSteps int    // I/O steps before the final dump started
	CloseErr    string // error of the final Close
	ClosePanic  string
}

// Options controls an execution.
type Options struct {
	Dir          string // scratch directory (file is created inside)
	Property     string
	KeepLog      bool
	Attribute    bool
	NoFinalCheck bool // do not compare with the model (used for differential runs)
	KeepFile     bool
	StopAfterOps int // execute only this many ops (prefix runs), 0 = all
	SkipValues   bool
	// DetectClobber keeps the attributed write log and, when a write straddles
	// space written for another structure, reports only that (every other
	// oracle failure of the run is a consequence of the corrupted file).
	DetectClobber bool
}

// Exec is the executor state.
type Exec struct {
	t      *trace.Trace
	o      Options
	sim    *disk.Sim
	pool   *disk.Pool
	m      *model.Model
	path   string
	fw     *hdf5.FileWriter
	rmw    bool
	dws    map[string]*hdf5.DatasetWriter
	gws    map[string]*hdf5.GroupWriter
	out    *Outcome
	opIdx  int
	closed bool
	dead   bool // model can no longer represent the file; stop comparing
	// handles kept after Close for "call on closed handle" operations (C16)
	fwClosed  *hdf5.FileWriter
	dwsClosed map[string]*hdf5.DatasetWriter
	// read-modify-write session bookkeeping (C10)
	sessionHash string
	sessionOps  int
}

// Path returns the path of the simulated file.
func (e *Exec) Path() string { return e.path }

func (e *Exec) violate(oracle, class, detail string) {
	// context: did the failure need a read-modify-write session (OpenForWrite)?
	if e.out.Probes["rmw_session"] > 0 {
		class += "@rmw"
	}
	e.out.Violations = append(e.out.Violations, trace.Violation{
		Property: e.o.Property, Oracle: oracle, Class: class, Detail: detail, OpIndex: e.opIdx})
}

func (e *Exec) probe(name string) { e.out.Probes[name]++ }

// Run executes a trace and returns the outcome.
func Run(t *trace.Trace, o Options) *Outcome {
	if o.Property == "" {
		o.Property = t.Property
	}
	e := &Exec{t: t, o: o, m: model.New(), dws: map[string]*hdf5.DatasetWriter{}, gws: map[string]*hdf5.GroupWriter{}}
	e.out = &Outcome{Probes: map[string]int{}, Fired: map[string]int{}}
	e.sim = disk.NewSim()
	if o.DetectClobber {
		o.KeepLog, o.Attribute = true, true
		e.o = o
	}
	e.sim.KeepLog = o.KeepLog
	e.sim.Attribute = o.Attribute
	e.sim.SetFaults(t.Faults)
	disk.Install(e.sim)
	mode := t.Config.Pool
	if mode == "" {
		mode = "plain"
	}
	e.pool = &disk.Pool{Mode: mode}
	disk.InstallPool(e.pool)
	defer disk.Install(nil)
	defer disk.InstallPool(nil)

	e.path = filepath.Join(o.Dir, "sim.h5")
	_ = os.Remove(e.path)
	if !o.KeepFile {
		defer os.Remove(e.path)
	}
	defer e.abandon()

	e.sim.CurOp = -1
	e.createFile()
	nops := len(t.Ops)
	if o.StopAfterOps > 0 && o.StopAfterOps < nops {
		nops = o.StopAfterOps
	}
	for i := 0; i < nops; i++ {
		e.opIdx = i
		e.sim.CurOp = i
		op := &t.Ops[i]
		res := e.doOp(op)
		e.out.Results = append(e.out.Results, res)
		e.out.Ops++
		if res.OK() {
			e.out.OKOps++
		}
		e.out.States = append(e.out.States, e.m.StateHash())
	}
	e.opIdx = nops
	// final restart: Close + Open + compare
	e.restart("open", true)
	if o.DetectClobber {
		if cls := ClobberClass(e.sim.Log); cls != "" {
			e.out.Probes["clobber-detected"]++
			if len(e.out.Violations) > 0 {
				first := e.out.Violations[0]
				e.out.Violations = []trace.Violation{{Property: o.Property, Oracle: "overlap", Class: cls,
					Detail: "a write straddles space last written for another structure; first consequence: " + first.Signature() + ": " + first.Detail, OpIndex: first.OpIndex}}
			} else {
				e.out.Probes["clobber-without-consequence"]++
			}
		}
	}
	e.out.IOSteps = e.sim.Step
	e.out.Fired = e.sim.Fired
	e.out.FiredSteps = e.sim.FiredSteps
	e.out.FiredOps = e.sim.FiredOps
	e.out.FiredFns = e.sim.FiredFns
	e.out.Log = e.sim.Log
	if st, err := os.Stat(e.path); err == nil {
		e.out.FileSize = st.Size()
	}
	e.out.Path = e.path
	if !e.dead {
		e.out.Model = e.m
	}
	return e.out
}

func (e *Exec) abandon() {
	// make sure no file descriptors leak, whatever state the run ended in
	if e.fw != nil {
		func() {
			defer func() { _ = recover() }()
			_ = e.fw.Close()
		}()
		e.fw = nil
	}
}

func (e *Exec) fileOpts() []interface{} {
	c := e.t.Config
	var opts []interface{}
	opts = append(opts, hdf5.WithSuperblockVersion(uint8(c.SB)))
	if c.NoRebal {
		opts = append(opts, hdf5.WithBTreeRebalancing(false))
	}
	if c.Lazy != nil {
		opts = append(opts, hdf5.WithLazyRebalancing(hdf5.LazyThreshold(c.Lazy.Threshold),
			hdf5.LazyMaxDelay(time.Duration(c.Lazy.MaxDelayNs)), hdf5.LazyBatchSize(c.Lazy.Batch)))
	}
	if c.Incr != nil {
		opts = append(opts, hdf5.WithIncrementalRebalancing(hdf5.IncrementalBudget(time.Duration(c.Incr.BudgetNs)),
			hdf5.IncrementalInterval(time.Duration(c.Incr.IntervalNs))))
	}
	if c.Smart != nil {
		so := []hdf5.SmartOption{hdf5.SmartAutoDetect(c.Smart.AutoDetect), hdf5.SmartAutoSwitch(c.Smart.AutoSwitch),
			hdf5.SmartMinFileSize(c.Smart.MinFile)}
		if len(c.Smart.Allowed) > 0 {
			so = append(so, hdf5.SmartAllowedModes(c.Smart.Allowed...))
		}
		opts = append(opts, hdf5.WithSmartRebalancing(so...))
	}
	return opts
}

func (e *Exec) createFile() {
	var err error
	var pan string
	func() {
		defer recoverTo(&pan)
		e.fw, err = hdf5.CreateForWrite(e.path, hdf5.CreateTruncate, e.fileOpts()...)
	}()
	if pan != "" {
		e.violate("panic", "create-file", pan)
		e.dead = true
		return
	}
	if err != nil {
		// creation may legitimately fail only under injected faults
		e.fw = nil
		if len(e.t.Faults) == 0 {
			e.violate("create-file", ErrClass(err.Error()), err.Error())
		}
		e.dead = true
	}
}

func call(f func() error) (res OpResult) {
	defer func() {
		if r := recover(); r != nil {
			res.Panic = fmt.Sprint(r) + " @" + PanicSite()
		}
	}()
	if err := f(); err != nil {
		res.Err = err.Error()
		if res.Err == "" {
			res.Err = "error"
		}
	}
	return res
}

func dsOpts(op *trace.Op) []hdf5.DatasetOption {
	var o []hdf5.DatasetOption
	if op.StrSize > 0 {
		o = append(o, hdf5.WithStringSize(op.StrSize))
	}
	if len(op.ArrDims) > 0 {
		o = append(o, hdf5.WithArrayDims(op.ArrDims))
	}
	if len(op.EnumN) > 0 || len(op.EnumV) > 0 {
		o = append(o, hdf5.WithEnumValues(op.EnumN, op.EnumV))
	}
	if op.OpqTag != "" || op.OpqSize > 0 {
		o = append(o, hdf5.WithOpaqueTag(op.OpqTag, op.OpqSize))
	}
	if len(op.Chunk) > 0 {
		o = append(o, hdf5.WithChunkDims(op.Chunk))
	}
	if len(op.MaxDims) > 0 {
		o = append(o, hdf5.WithMaxDims(op.MaxDims))
	}
	for _, f := range op.Filters {
		switch {
		case strings.HasPrefix(f, "gzip:"):
			lv, _ := strconv.Atoi(f[5:])
			o = append(o, hdf5.WithGZIPCompression(lv))
		case f == "shuffle":
			o = append(o, hdf5.WithShuffle())
		case f == "fletcher32":
			o = append(o, hdf5.WithFletcher32())
		}
	}
	return o
}

func compoundType(op *trace.Op) (*core.DatatypeMessage, error) {
	var fields []core.CompoundFieldDef
	for _, f := range op.Fields {
		b, ok := model.FieldBasic(f.Kind)
		if !ok {
			return nil, fmt.Errorf("bad field kind %s", f.Kind)
		}
		cls := core.DatatypeFixed
		if b.BaseKind == "float" {
			cls = core.DatatypeFloat
		}
		ft, err := core.CreateBasicDatatypeMessage(cls, uint32(b.Size))
		if err != nil {
			return nil, err
		}
		fields = append(fields, core.CompoundFieldDef{Name: f.Name, Offset: f.Offset, Type: ft})
	}
	if op.Mode == "v1" {
		total := uint32(0)
		for _, f := range fields {
			total += f.Type.Size
		}
		enc, err := core.EncodeCompoundDatatypeV1(total, fields)
		if err != nil {
			return nil, err
		}
		return core.ParseDatatypeMessage(enc)
	}
	return core.CreateCompoundTypeFromFields(fields)
}

// dataset returns a writer handle for path, opening it in RMW sessions.
func (e *Exec) dataset(path string) (*hdf5.DatasetWriter, OpResult) {
	if dw := e.dws[path]; dw != nil {
		return dw, OpResult{}
	}
	if e.fw == nil {
		return nil, OpResult{Skipped: true}
	}
	if !e.rmw {
		return nil, OpResult{Skipped: true}
	}
	var dw *hdf5.DatasetWriter
	res := call(func() error {
		var err error
		dw, err = e.fw.OpenDataset(path)
		return err
	})
	if res.OK() {
		e.dws[path] = dw
		e.probe("open_dataset")
	}
	return dw, res
}

func (e *Exec) doOp(op *trace.Op) OpResult {
	if op.Op == "restart" {
		e.restart(op.Mode, false)
		return OpResult{}
	}
	if op.Op == "close_file" {
		n := op.N
		if n <= 0 {
			n = 1
		}
		var res OpResult
		for i := 0; i < n; i++ {
			r := e.closeFile()
			if !r.OK() && res.OK() {
				res = r
			}
		}
		return res
	}
	if e.fw == nil {
		// operations on a closed writer: still issue them where a handle exists (C16)
		if op.Bad != "closed" || e.fwClosed == nil {
			return OpResult{Skipped: true}
		}
		e.fw, e.dws = e.fwClosed, e.dwsClosed
		defer func() {
			e.fw = nil
			e.dws = map[string]*hdf5.DatasetWriter{}
		}()
	}
	e.sessionOps++
	var res OpResult
	// property-level expectations known before the call
	mustReject, rejectWhy := false, ""
	switch op.Op {
	case "create_dataset", "create_compound_dataset", "create_group", "hard_link", "soft_link", "ext_link",
		"create_dense_group", "create_group_with_links":
		if ok, why := e.m.CanCreate(op.Path); !ok && !e.dead {
			mustReject, rejectWhy = true, why
		}
	}
	switch op.Op {
	case "create_dataset":
		var dw *hdf5.DatasetWriter
		res = call(func() error {
			var err error
			dw, err = e.fw.CreateDataset(op.Path, Datatypes[op.DType], op.Dims, dsOpts(op)...)
			return err
		})
		if res.OK() {
			e.dws[op.Path] = dw
		}
	case "create_compound_dataset":
		var dw *hdf5.DatasetWriter
		res = call(func() error {
			ct, err := compoundType(op)
			if err != nil {
				return err
			}
			dw, err = e.fw.CreateCompoundDataset(op.Path, ct, op.Dims, dsOpts(op)...)
			return err
		})
		if res.OK() {
			e.dws[op.Path] = dw
		}
	case "write", "write_raw":
		dw, r := e.dataset(op.Path)
		if dw == nil {
			return r
		}
		n := e.m.Lookup(op.Path)
		if n == nil || n.DS == nil {
			return OpResult{Skipped: true}
		}
		ds := n.DS
		cnt := 1
		for _, d := range ds.Dims {
			cnt *= int(d)
		}
		var val interface{}
		var raw []byte
		if ds.DT.Class == "vlen" {
			val = model.VLenGoValue(ds.DT, model.GenVLen(ds.DT, cnt+dataWrong(op), op.Data))
		} else {
			raw = model.GenRaw(ds.DT, cnt+dataWrong(op), op.Data)
			val = model.GoSlice(ds.DT, raw)
			if op.Data != nil && op.Data.WrongType {
				val = wrongType(val)
			}
		}
		res = call(func() error {
			if op.Op == "write_raw" || ds.DT.Class == "compound" || ds.DT.BaseKind == "raw" && ds.DT.Class != "opaque" {
				return dw.WriteRaw(raw)
			}
			return dw.Write(val)
		})
	case "resize":
		dw, r := e.dataset(op.Path)
		if dw == nil {
			return r
		}
		n := e.m.Lookup(op.Path)
		res = call(func() error { return dw.Resize(op.Dims) })
		if n != nil && n.DS != nil && !e.dead && len(n.DS.MaxDims) == len(op.Dims) && len(op.Dims) > 0 && e.o.Property == "C13" {
			within, valid := true, true
			for i, d := range op.Dims {
				if d == 0 {
					valid = false
				}
				if n.DS.MaxDims[i] != hdf5.Unlimited && d > n.DS.MaxDims[i] {
					within = false
				}
			}
			if valid && within && res.Err != "" {
				e.violate("resize-must-succeed", ErrClass(res.Err), fmt.Sprintf("resize %v within maxdims %v rejected: %s", op.Dims, n.DS.MaxDims, res.Err))
			}
			if valid && !within && res.OK() {
				e.violate("resize-must-reject", "beyond-maxdims-accepted", fmt.Sprintf("resize %v beyond maxdims %v accepted", op.Dims, n.DS.MaxDims))
				e.dead = true
			}
		}
	case "write_attr":
		val, _ := model.GoValue(op.Value)
		if gw := e.gws[op.Path]; gw != nil {
			res = call(func() error { return gw.WriteAttribute(op.Name, val) })
		} else {
			n := e.m.Lookup(op.Path)
			if n != nil && n.Kind == "group" {
				return OpResult{Skipped: true}
			}
			dw, r := e.dataset(op.Path)
			if dw == nil {
				return r
			}
			res = call(func() error { return dw.WriteAttribute(op.Name, val) })
		}
	case "delete_attr":
		dw, r := e.dataset(op.Path)
		if dw == nil {
			return r
		}
		res = call(func() error { return dw.DeleteAttribute(op.Name) })
	case "rebalance_attr_btree":
		dw, r := e.dataset(op.Path)
		if dw == nil {
			return r
		}
		res = call(func() error { return dw.RebalanceAttributeBTree() })
	case "close_dataset":
		dw, r := e.dataset(op.Path)
		if dw == nil {
			return r
		}
		res = call(func() error { return dw.Close() })
	case "create_group":
		var gw *hdf5.GroupWriter
		res = call(func() error {
			var err error
			gw, err = e.fw.CreateGroup(op.Path)
			return err
		})
		if res.OK() {
			e.gws[op.Path] = gw
		}
	case "create_dense_group", "create_group_with_links":
		links := map[string]string{}
		for _, l := range op.Links {
			links[l.Name] = l.Target
		}
		res = call(func() error {
			if op.Op == "create_dense_group" {
				return e.fw.CreateDenseGroup(op.Path, links)
			}
			return e.fw.CreateGroupWithLinks(op.Path, links)
		})
	case "hard_link":
		res = call(func() error { return e.fw.CreateHardLink(op.Path, op.Target) })
	case "soft_link":
		res = call(func() error { return e.fw.CreateSoftLink(op.Path, op.Target) })
	case "ext_link":
		res = call(func() error { return e.fw.CreateExternalLink(op.Path, op.File, op.Target) })
	case "disable_rebalancing":
		res = call(func() error { e.fw.DisableRebalancing(); return nil })
	case "enable_rebalancing":
		res = call(func() error { e.fw.EnableRebalancing(); return nil })
	case "enable_lazy":
		cfg := structures.DefaultLazyConfig()
		if op.Lazy != nil {
			cfg.Threshold = op.Lazy.Threshold
			cfg.MaxDelay = time.Duration(op.Lazy.MaxDelayNs)
			cfg.BatchSize = op.Lazy.Batch
		}
		res = call(func() error { return e.fw.EnableLazyRebalancing(cfg) })
		res = OpResult{Panic: res.Panic} // outcome of toggles is not modelled
	case "disable_lazy":
		res = call(func() error { return e.fw.DisableLazyRebalancing() })
		res = OpResult{Panic: res.Panic}
	case "force_batch":
		res = call(func() error { return e.fw.ForceBatchRebalance() })
		res = OpResult{Panic: res.Panic}
	case "enable_incremental":
		cfg := structures.DefaultIncrementalConfig()
		if op.Incr != nil {
			cfg.Budget = time.Duration(op.Incr.BudgetNs)
			cfg.Interval = time.Duration(op.Incr.IntervalNs)
		}
		res = call(func() error { return e.fw.EnableIncrementalRebalancing(cfg) })
		res = OpResult{Panic: res.Panic}
	case "stop_incremental":
		res = call(func() error { return e.fw.StopIncrementalRebalancing() })
		res = OpResult{Panic: res.Panic}
	case "rebalance_all":
		res = call(func() error { return e.fw.RebalanceAllBTrees() })
		res = OpResult{Panic: res.Panic}
	default:
		return OpResult{Skipped: true}
	}

	if res.Panic != "" {
		e.violate("panic", op.Op+":"+ErrClass(res.Panic), fmt.Sprintf("op %d %s panicked: %s", e.opIdx, op.Op, res.Panic))
		e.dead = true
		return res
	}
	if mustReject && res.OK() {
		e.violate("must-reject", rejectWhy+":"+op.Op, fmt.Sprintf("op %d %s %s accepted although %s", e.opIdx, op.Op, op.Path, rejectWhy))
		e.dead = true
		return res
	}
	if res.OK() && !e.dead {
		if err := e.m.Apply(op); err != nil {
			e.violate("accepted-invalid", op.Op+":"+ErrClass(err.Error()), fmt.Sprintf("op %d: %v", e.opIdx, err))
			e.dead = true
		}
	}
	return res
}

func dataWrong(op *trace.Op) int {
	if op.Data != nil {
		return op.Data.WrongLen
	}
	return 0
}

func wrongType(v interface{}) interface{} {
	switch x := v.(type) {
	case []float64:
		return make([]int16, len(x))
	case []string:
		return make([]float64, len(x))
	default:
		_ = x
		return []string{"wrong"}
	}
}

func (e *Exec) closeFile() OpResult {
	if e.fw == nil {
		return OpResult{Skipped: true}
	}
	fw := e.fw
	res := call(func() error { return fw.Close() })
	if res.Panic != "" {
		e.violate("panic", "close:"+ErrClass(res.Panic), res.Panic)
		e.dead = true
	}
	e.closed = true
	return res
}

// restart closes the writer (if open), compares the reopened file with the
// model, and opens a new session when mode is open_for_write.
func (e *Exec) restart(mode string, final bool) {
	if e.fw != nil {
		e.sim.CurOp = e.opIdx
		res := e.closeFile()
		if final {
			e.out.CloseErr, e.out.ClosePanic = res.Err, res.Panic
		}
		if res.Err != "" && len(e.t.Faults) == 0 {
			e.violate("close-error", ErrClass(res.Err), res.Err)
		}
		// a second Close must be harmless
		if e.o.Property == "C16" {
			r2 := call(func() error { return e.fw.Close() })
			if r2.Panic != "" {
				e.violate("panic", "close-again", r2.Panic)
			}
		}
		e.fwClosed, e.dwsClosed = e.fw, e.dws
		wasRMW := e.rmw
		e.fw = nil
		e.rmw = false
		e.dws = map[string]*hdf5.DatasetWriter{}
		e.gws = map[string]*hdf5.GroupWriter{}
		// C10: a session that made no modification leaves the file byte-identical
		if wasRMW && e.sessionOps == 0 && e.sessionHash != "" && e.o.Property == "C10" {
			if h := fileHash(e.path); h != e.sessionHash {
				e.violate("noop-session", "file-bytes-changed", "a session without any call changed the file bytes")
			} else {
				e.probe("noop-session-identical")
			}
		}
	}
	e.out.Restarts++
	if final {
		e.out.WriterSteps = e.sim.Step
	}
	if !e.o.NoFinalCheck || final {
		d := DumpFile(e.path, DumpOpts{SkipValues: e.o.SkipValues, Partial: e.o.Property == "C01"})
		if final {
			e.out.Final = d
		}
		if !e.o.NoFinalCheck && !e.dead {
			e.compare(d)
		}
	}
	if final {
		return
	}
	if mode == "open_for_write" {
		var fw *hdf5.FileWriter
		res := call(func() error {
			var err error
			fw, err = hdf5.OpenForWrite(e.path, hdf5.OpenReadWrite)
			return err
		})
		if res.Panic != "" {
			e.violate("panic", "open-for-write:"+ErrClass(res.Panic), res.Panic)
			e.dead = true
			return
		}
		if res.Err != "" {
			if !e.dead && len(e.t.Faults) == 0 {
				e.violate("open-for-write-error", ErrClass(res.Err), res.Err)
				e.dead = true
			}
			return
		}
		e.fw = fw
		e.rmw = true
		e.sessionOps = 0
		if e.o.Property == "C10" {
			e.sessionHash = fileHash(e.path)
		}
		e.probe("rmw_session")
	}
}

func fileHash(path string) string {
	b, err := os.ReadFile(path)
	if err != nil {
		return "unreadable:" + err.Error()
	}
	h := sha256.Sum256(b)
	return hex.EncodeToString(h[:])
}
