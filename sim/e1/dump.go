package e1

import (
	"fmt"
	"math"
	"reflect"
	"regexp"
	"runtime"
	"sort"
	"strings"

	hdf5 "github.com/scigolib/hdf5"
	"github.com/scigolib/hdf5/internal/core"
)

// AttrDump is one attribute as observed through the read API.
type AttrDump struct {
	Name    string
	Class   int
	Size    uint32
	Signed  bool
	Dims    []uint64
	Data    []byte
	Val     interface{}
	ValErr  string
	HasType bool
}

// ObjDump is one object as observed through the read API.
type ObjDump struct {
	Path     string
	Kind     string // group|dataset|datatype|other
	Addr     uint64
	Info     string
	InfoErr  string
	Class    int
	Size     uint32
	BitField uint32
	Dims     []uint64
	MetaErr  string
	F64      []float64
	F64Err   string
	Strs     []string
	StrsErr  string
	Comp     []core.CompoundValue
	CompErr  string
	Attrs    []AttrDump
	AttrsErr string
	Names    []string // ListAttributes
	NamesErr string
	Children []string
	// Partial (C01): blocks read with ReadSlice, compared with the written values
	Parts    []PartRead
	SliceErr string // ReadSlice of a centre block (Extra)
	SliceSum string // digest of the values ReadSlice returned (Extra)
	IterErr  string // chunk iterator pass (Extra)
}

// Dump is the logical content of a file as observed through the public read API.
// PartRead is one ReadSlice call and what it returned.
type PartRead struct {
	Start, Count []uint64
	Vals         []float64
	Err          string
}

type Dump struct {
	OpenErr string
	Panic   string
	Objs    []ObjDump
	ByPath  map[string]*ObjDump
}

func recoverTo(dst *string) {
	if r := recover(); r != nil {
		*dst = PanicMark + fmt.Sprint(r) + " @" + PanicSite()
	}
}

// PanicMark prefixes the error text of a read call that panicked (the panic is
// recovered per call so that the rest of the dump can proceed).
const PanicMark = "PANIC: "

// Panics lists the panics recovered inside individual read calls of a dump.
func (d *Dump) Panics() []string {
	var out []string
	add := func(path, what, s string) {
		if strings.HasPrefix(s, PanicMark) {
			out = append(out, what+": "+strings.TrimPrefix(s, PanicMark))
		}
	}
	if d.Panic != "" {
		out = append(out, "open/walk: "+d.Panic)
	}
	for i := range d.Objs {
		o := &d.Objs[i]
		add(o.Path, "Info", o.InfoErr)
		add(o.Path, "meta", o.MetaErr)
		add(o.Path, "Read", o.F64Err)
		add(o.Path, "ReadStrings", o.StrsErr)
		add(o.Path, "ReadCompound", o.CompErr)
		add(o.Path, "Attributes", o.AttrsErr)
		add(o.Path, "ListAttributes", o.NamesErr)
		add(o.Path, "ReadSlice", o.SliceErr)
		add(o.Path, "ChunkIterator", o.IterErr)
		for j := range o.Attrs {
			add(o.Path, "ReadValue", o.Attrs[j].ValErr)
		}
	}
	return out
}

// PanicSite must be called from a deferred function while a panic is being
// recovered: it returns the innermost /repo function on the panicking stack.
func PanicSite() string {
	var pcs [64]uintptr
	n := runtime.Callers(2, pcs[:])
	frames := runtime.CallersFrames(pcs[:n])
	for {
		fr, more := frames.Next()
		fn := fr.Function
		if strings.HasPrefix(fn, "github.com/scigolib/hdf5") && !strings.HasPrefix(fn, "github.com/scigolib/hdf5/verifsim") {
			return strings.TrimPrefix(fn, "github.com/scigolib/hdf5")
		}
		if !more {
			break
		}
	}
	return "?"
}

// DumpOpts selects which reads are performed.
type DumpOpts struct {
	SkipValues bool
	// Extra also exercises ReadSlice of a centre block and a full chunk-iterator
	// pass (used by the robustness check; results are not compared).
	Extra bool
	// Partial also reads blocks of every numeric dataset with ReadSlice (the
	// other read the library offers for them) and keeps the values.
	Partial bool
}

// DumpFile opens path and reads everything reachable.
func DumpFile(path string, o DumpOpts) (d *Dump) {
	d = &Dump{ByPath: map[string]*ObjDump{}}
	defer func() {
		if r := recover(); r != nil {
			d.Panic = fmt.Sprint(r) + " @" + PanicSite()
		}
	}()
	f, err := hdf5.Open(path)
	if err != nil {
		d.OpenErr = err.Error()
		return d
	}
	defer f.Close()
	DumpOpen(f, d, o)
	return d
}

// DumpOpen reads everything reachable from an open file into d.
func DumpOpen(f *hdf5.File, d *Dump, o DumpOpts) {
	n := 0
	f.Walk(func(p string, obj hdf5.Object) {
		n++
		if n > 5000 {
			return
		}
		od := ObjDump{Path: strings.TrimSuffix(p, "/")}
		if od.Path == "" {
			od.Path = "/"
		}
		switch v := obj.(type) {
		case *hdf5.Group:
			od.Kind = "group"
			for _, c := range v.Children() {
				od.Children = append(od.Children, c.Name())
			}
			func() {
				defer recoverTo(&od.AttrsErr)
				as, err := v.Attributes()
				if err != nil {
					od.AttrsErr = err.Error()
					return
				}
				od.Attrs = dumpAttrs(as)
			}()
		case *hdf5.Dataset:
			od.Kind = "dataset"
			od.Addr = v.Address()
			dumpDataset(f, v, &od, o)
		case *hdf5.NamedDatatype:
			od.Kind = "datatype"
		default:
			od.Kind = "other"
		}
		d.Objs = append(d.Objs, od)
	})
	for i := range d.Objs {
		if _, dup := d.ByPath[d.Objs[i].Path]; !dup {
			d.ByPath[d.Objs[i].Path] = &d.Objs[i]
		}
	}
}

func dumpAttrs(as []*core.Attribute) []AttrDump {
	out := make([]AttrDump, 0, len(as))
	for _, a := range as {
		ad := AttrDump{Name: a.Name, Data: append([]byte(nil), a.Data...)}
		if a.Datatype != nil {
			ad.HasType = true
			ad.Class = int(a.Datatype.Class)
			ad.Size = a.Datatype.Size
			ad.Signed = a.Datatype.ClassBitField&0x08 != 0
		}
		if a.Dataspace != nil {
			ad.Dims = append([]uint64(nil), a.Dataspace.Dimensions...)
		}
		func() {
			defer recoverTo(&ad.ValErr)
			v, err := a.ReadValue()
			if err != nil {
				ad.ValErr = err.Error()
				return
			}
			ad.Val = v
		}()
		out = append(out, ad)
	}
	return out
}

func dumpDataset(f *hdf5.File, v *hdf5.Dataset, od *ObjDump, o DumpOpts) {
	func() {
		defer recoverTo(&od.InfoErr)
		s, err := v.Info()
		if err != nil {
			od.InfoErr = err.Error()
			return
		}
		od.Info = s
	}()
	func() {
		defer recoverTo(&od.MetaErr)
		hdr, err := core.ReadObjectHeader(f.Reader(), v.Address(), f.Superblock())
		if err != nil {
			od.MetaErr = err.Error()
			return
		}
		info, err := core.ReadDatasetInfo(hdr, f.Superblock())
		if err != nil {
			od.MetaErr = err.Error()
			return
		}
		od.Class = int(info.Datatype.Class)
		od.Size = info.Datatype.Size
		od.BitField = info.Datatype.ClassBitField
		od.Dims = append([]uint64(nil), info.Dataspace.Dimensions...)
	}()
	func() {
		defer recoverTo(&od.AttrsErr)
		as, err := v.Attributes()
		if err != nil {
			od.AttrsErr = err.Error()
			return
		}
		od.Attrs = dumpAttrs(as)
	}()
	func() {
		defer recoverTo(&od.NamesErr)
		ns, err := v.ListAttributes()
		if err != nil {
			od.NamesErr = err.Error()
			return
		}
		od.Names = ns
	}()
	if o.SkipValues {
		return
	}
	func() {
		defer recoverTo(&od.F64Err)
		x, err := v.Read()
		if err != nil {
			od.F64Err = err.Error()
			return
		}
		od.F64 = x
	}()
	func() {
		defer recoverTo(&od.StrsErr)
		x, err := v.ReadStrings()
		if err != nil {
			od.StrsErr = err.Error()
			return
		}
		od.Strs = x
	}()
	func() {
		defer recoverTo(&od.CompErr)
		x, err := v.ReadCompound()
		if err != nil {
			od.CompErr = err.Error()
			return
		}
		od.Comp = x
	}()
	if o.Partial && od.F64 != nil && len(od.Dims) > 0 && len(od.Dims) <= 4 {
		blocks := func() [][2][]uint64 {
			var out [][2][]uint64
			for variant := 0; variant < 3; variant++ {
				st := make([]uint64, len(od.Dims))
				ct := make([]uint64, len(od.Dims))
				total := uint64(1)
				for i, d := range od.Dims {
					switch variant {
					case 0: // centre block
						st[i], ct[i] = d/4, max(d/2, 1)
					case 1: // block ending at the last element
						ct[i] = max(d-d/3, 1)
						st[i] = d - ct[i]
					default: // everything
						st[i], ct[i] = 0, d
					}
					for total*ct[i] > 8192 && ct[i] > 1 {
						ct[i] = (ct[i] + 1) / 2
					}
					total *= ct[i]
				}
				out = append(out, [2][]uint64{st, ct})
			}
			return out
		}()
		for _, b := range blocks {
			pr := PartRead{Start: b[0], Count: b[1]}
			func() {
				defer recoverTo(&pr.Err)
				res, err := v.ReadSlice(b[0], b[1])
				if err != nil {
					pr.Err = err.Error()
					return
				}
				if f, ok := res.([]float64); ok {
					pr.Vals = f
				} else {
					pr.Err = fmt.Sprintf("ReadSlice returned %T", res)
				}
			}()
			od.Parts = append(od.Parts, pr)
		}
	}
	if !o.Extra {
		return
	}
	func() {
		defer recoverTo(&od.SliceErr)
		if len(od.Dims) == 0 || len(od.Dims) > 8 {
			return
		}
		start := make([]uint64, len(od.Dims))
		count := make([]uint64, len(od.Dims))
		for i, d := range od.Dims {
			start[i] = d / 4
			count[i] = d / 2
			if count[i] == 0 {
				count[i] = 1
			}
			if count[i] > 64 {
				count[i] = 64
			}
		}
		// keep the selection small (the values are digested)
		total := uint64(1)
		for i := range count {
			for total*count[i] > 4096 && count[i] > 1 {
				count[i] /= 2
			}
			total *= count[i]
		}
		res, err := v.ReadSlice(start, count)
		if err != nil {
			od.SliceErr = err.Error()
			return
		}
		// and the block that ends at the last element (the tail of the stored data)
		// (about two thirds of every dimension, so that neither rows nor columns are complete)
		tail := make([]uint64, len(od.Dims))
		tcount := make([]uint64, len(od.Dims))
		ttotal := uint64(1)
		for i, d := range od.Dims {
			tcount[i] = d - d/3
			if tcount[i] == 0 {
				tcount[i] = 1
			}
			for (tcount[i] > 64 || ttotal*tcount[i] > 4096) && tcount[i] > 1 {
				tcount[i] /= 2
			}
			ttotal *= tcount[i]
			tail[i] = d - tcount[i]
		}
		res2, err := v.ReadSlice(tail, tcount)
		if err != nil {
			od.SliceErr = err.Error()
			return
		}
		od.SliceSum = fmt.Sprintf("%T:%x:%x", res, fnv64(fmt.Sprint(res)), fnv64(fmt.Sprint(res2)))
	}()
	func() {
		defer recoverTo(&od.IterErr)
		it, err := v.ChunkIterator()
		if err != nil {
			od.IterErr = err.Error()
			return
		}
		n := 0
		for it.Next() && n < 4096 {
			if _, err := it.Chunk(); err != nil {
				od.IterErr = err.Error()
				return
			}
			n++
		}
		if err := it.Err(); err != nil {
			od.IterErr = err.Error()
		}
	}()
}

var reNum = regexp.MustCompile(`0x[0-9a-fA-F]+|[0-9]+`)
var reQuoted = regexp.MustCompile(`"[^"]*"`)

// ErrClass normalises an error message into a stable class: numbers, addresses
// and quoted strings are removed, and only the outermost and innermost message
// parts are kept.
func ErrClass(msg string) string {
	if msg == "" {
		return ""
	}
	s := reQuoted.ReplaceAllString(msg, `""`)
	if i := strings.Index(s, "signature:"); i >= 0 {
		s = s[:i+len("signature")] // what follows are raw file bytes
	}
	s = reNum.ReplaceAllString(s, "N")
	s = strings.Map(func(r rune) rune {
		if r < 0x20 || r > 0x7E {
			return -1
		}
		return r
	}, s)
	parts := strings.Split(s, ": ")
	if len(parts) > 2 {
		s = parts[0] + ": ... : " + parts[len(parts)-1]
	}
	if len(s) > 120 {
		s = s[:120]
	}
	return s
}

// Equal compares two dumps and returns a description of the first difference.
func (d *Dump) Equal(o *Dump) (bool, string) {
	if d.OpenErr != o.OpenErr {
		return false, fmt.Sprintf("open error %q vs %q", d.OpenErr, o.OpenErr)
	}
	if d.Panic != o.Panic {
		return false, "panic differs"
	}
	if len(d.Objs) != len(o.Objs) {
		return false, fmt.Sprintf("object count %d vs %d", len(d.Objs), len(o.Objs))
	}
	for i := range d.Objs {
		if ok, why := d.Objs[i].Equal(&o.Objs[i]); !ok {
			return false, d.Objs[i].Path + ": " + why
		}
	}
	return true, ""
}

func sameF64(a, b []float64) bool {
	if len(a) != len(b) {
		return false
	}
	for i := range a {
		if math.Float64bits(a[i]) != math.Float64bits(b[i]) {
			return false
		}
	}
	return true
}

// Equal compares two object dumps ignoring addresses.
func (a *ObjDump) Equal(b *ObjDump) (bool, string) {
	switch {
	case a.Path != b.Path:
		return false, "path " + b.Path
	case a.Kind != b.Kind:
		return false, "kind"
	case stripAddr(a.Info) != stripAddr(b.Info) || (a.InfoErr == "") != (b.InfoErr == ""):
		return false, "info"
	case a.Class != b.Class || a.Size != b.Size || a.BitField != b.BitField || !reflect.DeepEqual(a.Dims, b.Dims):
		return false, "type/shape"
	case (a.F64Err == "") != (b.F64Err == "") || !sameF64(a.F64, b.F64):
		return false, "values"
	case (a.StrsErr == "") != (b.StrsErr == "") || !reflect.DeepEqual(a.Strs, b.Strs):
		return false, "strings"
	case (a.CompErr == "") != (b.CompErr == "") || !SameCompound(a.Comp, b.Comp):
		return false, "compound"
	case (a.AttrsErr == "") != (b.AttrsErr == ""):
		return false, "attrs error"
	case !reflect.DeepEqual(a.Children, b.Children):
		return false, "children"
	}
	if len(a.Attrs) != len(b.Attrs) {
		return false, "attr count"
	}
	am := map[string]*AttrDump{}
	for i := range a.Attrs {
		am[a.Attrs[i].Name] = &a.Attrs[i]
	}
	for i := range b.Attrs {
		x := am[b.Attrs[i].Name]
		y := &b.Attrs[i]
		if x == nil {
			return false, "attr " + y.Name + " missing"
		}
		if x.Class != y.Class || x.Size != y.Size || x.Signed != y.Signed || !reflect.DeepEqual(x.Dims, y.Dims) || string(x.Data) != string(y.Data) {
			return false, "attr " + y.Name
		}
	}
	return true, ""
}

var reAddr = regexp.MustCompile(`address=0x[0-9A-Fa-f]+`)

func stripAddr(s string) string { return reAddr.ReplaceAllString(s, "address=X") }

// SortedPaths returns all dumped paths sorted.
func (d *Dump) SortedPaths() []string {
	var ps []string
	for _, o := range d.Objs {
		ps = append(ps, o.Path)
	}
	sort.Strings(ps)
	return ps
}

// SameCompound compares two compound read results. Floating-point members are
// compared by bit pattern (reflect.DeepEqual would call a NaN unequal to itself).
func SameCompound(a, b []core.CompoundValue) bool {
	if len(a) != len(b) {
		return false
	}
	for i := range a {
		if !sameAny(map[string]interface{}(a[i]), map[string]interface{}(b[i])) {
			return false
		}
	}
	return true
}

func sameAny(a, b interface{}) bool {
	switch x := a.(type) {
	case float32:
		y, ok := b.(float32)
		return ok && math.Float32bits(x) == math.Float32bits(y)
	case float64:
		y, ok := b.(float64)
		return ok && math.Float64bits(x) == math.Float64bits(y)
	case map[string]interface{}:
		y, ok := b.(map[string]interface{})
		if !ok || len(x) != len(y) {
			return false
		}
		for k, v := range x {
			w, ok := y[k]
			if !ok || !sameAny(v, w) {
				return false
			}
		}
		return true
	case core.CompoundValue:
		y, ok := b.(core.CompoundValue)
		return ok && sameAny(map[string]interface{}(x), map[string]interface{}(y))
	case []interface{}:
		y, ok := b.([]interface{})
		if !ok || len(x) != len(y) {
			return false
		}
		for i := range x {
			if !sameAny(x[i], y[i]) {
				return false
			}
		}
		return true
	case []float32:
		y, ok := b.([]float32)
		if !ok || len(x) != len(y) {
			return false
		}
		for i := range x {
			if math.Float32bits(x[i]) != math.Float32bits(y[i]) {
				return false
			}
		}
		return true
	case []float64:
		y, ok := b.([]float64)
		if !ok || len(x) != len(y) {
			return false
		}
		for i := range x {
			if math.Float64bits(x[i]) != math.Float64bits(y[i]) {
				return false
			}
		}
		return true
	}
	return reflect.DeepEqual(a, b)
}

func fnv64(s string) uint64 {
	h := uint64(1469598103934665603)
	for i := 0; i < len(s); i++ {
		h ^= uint64(s[i])
		h *= 1099511628211
	}
	return h
}
