package e1

import (
	"context"
	"fmt"
	"math"
	"sort"
	"strings"
	"time"

	"github.com/scigolib/hdf5/internal/rebalancing"
	"github.com/scigolib/hdf5/internal/structures"
	"github.com/scigolib/hdf5/verifsim/harness"
	"github.com/scigolib/hdf5/verifsim/rng"
	"github.com/scigolib/hdf5/verifsim/trace"
)

// ---------------------------------------------------------------------------
// C19, content part: rebalancing configuration never changes content.
// C19, selector part: the automatic selector obeys its constraints under a
// simulated clock (including clock faults).

// SimClock is the controllable rebalancing.Clock.
type SimClock struct{ T time.Time }

func (c *SimClock) Now() time.Time { return c.T }

var epoch = time.Date(2024, 1, 1, 0, 0, 0, 0, time.UTC)

func genRebalCfg(r *rng.R, c *trace.Config) {
	switch r.Intn(6) {
	case 0:
	case 1:
		c.NoRebal = true
	case 2:
		c.Lazy = &trace.LazyCfg{Threshold: rng.Pick(r, []float64{0.001, 0.05, 0.5, 1.0}), MaxDelayNs: int64(rng.Pick(r, []int{1, 1000, 1000000000, 3600000000000})), Batch: rng.Pick(r, []int{1, 2, 100, 10000})}
	case 3:
		c.Incr = &trace.IncrCfg{BudgetNs: int64(rng.Pick(r, []int{1, 1000, 100000000})), IntervalNs: int64(rng.Pick(r, []int{1, 1001, 5000000000}))}
	case 4:
		c.Smart = &trace.Smart{AutoDetect: r.Chance(0.5), AutoSwitch: r.Chance(0.5), MinFile: uint64(rng.Pick(r, []int{0, 1, 1 << 20, 1 << 30}))}
		if r.Chance(0.5) {
			c.Smart.Allowed = [][]string{{"none"}, {"lazy"}, {"lazy", "incremental"}, {"incremental"}}[r.Intn(4)]
		}
	case 5:
		c.Lazy = &trace.LazyCfg{Threshold: 0.05, MaxDelayNs: 1000, Batch: 10}
		c.Incr = &trace.IncrCfg{BudgetNs: 1000, IntervalNs: 1001}
	}
}

func genC19(r *rng.R, tier string, steer bool, idx int) *trace.Trace {
	if r.Chance(0.5) {
		return genC19Selector(r, tier)
	}
	t := genC02(r, tier, steer, idx)
	t.Config.Mode = "content"
	genRebalCfg(r, &t.Config)
	// toggles at random points of the history
	nt := r.Intn(5)
	for i := 0; i < nt; i++ {
		var op trace.Op
		switch r.Intn(8) {
		case 0:
			op = trace.Op{Op: "disable_rebalancing"}
		case 1:
			op = trace.Op{Op: "enable_rebalancing"}
		case 2:
			op = trace.Op{Op: "enable_lazy", Lazy: &trace.LazyCfg{Threshold: rng.Pick(r, []float64{0.01, 0.3, 1.0}), MaxDelayNs: int64(rng.Pick(r, []int{1, 1000000})), Batch: rng.Pick(r, []int{1, 50})}}
		case 3:
			op = trace.Op{Op: "disable_lazy"}
		case 4:
			op = trace.Op{Op: "force_batch"}
		case 5:
			op = trace.Op{Op: "enable_incremental", Incr: &trace.IncrCfg{BudgetNs: 1000, IntervalNs: 1001}}
		case 6:
			op = trace.Op{Op: "stop_incremental"}
		case 7:
			op = trace.Op{Op: "rebalance_all"}
		}
		pos := r.Intn(len(t.Ops) + 1)
		t.Ops = append(t.Ops[:pos], append([]trace.Op{op}, t.Ops[pos:]...)...)
	}
	if r.Chance(0.3) && len(t.Ops) > 2 {
		// rebalance the attribute index of a dataset explicitly
		for _, op := range t.Ops {
			if op.Op == "create_dataset" {
				t.Ops = append(t.Ops, trace.Op{Op: "rebalance_attr_btree", Path: op.Path})
				break
			}
		}
	}
	return t
}

func isToggle(op string) bool {
	switch op {
	case "disable_rebalancing", "enable_rebalancing", "enable_lazy", "disable_lazy", "force_batch", "enable_incremental", "stop_incremental", "rebalance_all", "rebalance_attr_btree":
		return true
	}
	return false
}

func execC19(t *trace.Trace, dir string) *harness.RunResult {
	if t.Config.Mode == "selector" || t.Config.Mode == "selector-scripted" {
		return execC19Selector(t)
	}
	// run under the configured rebalancing options ...
	out := RunClassified(t, Options{Dir: dir, Property: "C19", DetectClobber: true})
	res := toResult(out)
	// ... and the same history under the default configuration without toggles
	dt := t.Clone()
	dt.Config.NoRebal, dt.Config.Lazy, dt.Config.Incr, dt.Config.Smart = false, nil, nil, nil
	var ops []trace.Op
	for _, op := range dt.Ops {
		if !isToggle(op.Op) {
			ops = append(ops, op)
		}
	}
	dt.Ops = ops
	ref := Run(dt, Options{Dir: dir, Property: "C19", NoFinalCheck: true})
	res.SubRuns++
	if out.Final != nil && ref.Final != nil {
		if ok, why := ref.Final.Equal(out.Final); !ok {
			res.Violations = append(res.Violations, trace.Violation{Property: "C19", Oracle: "config-differential", Class: "content-differs-from-default-config",
				Detail: "content under the rebalancing configuration differs from the default configuration: " + why})
		} else {
			res.Probes["content-equal-to-default-config"]++
		}
	}
	cfg := "default"
	switch {
	case t.Config.Smart != nil:
		cfg = "smart"
	case t.Config.Incr != nil && t.Config.Lazy != nil:
		cfg = "lazy+incremental"
	case t.Config.Incr != nil:
		cfg = "incremental"
	case t.Config.Lazy != nil:
		cfg = "lazy"
	case t.Config.NoRebal:
		cfg = "off"
	}
	toggles := 0
	for _, op := range t.Ops {
		if isToggle(op.Op) {
			toggles++
		}
	}
	dels := 0
	for i, op := range t.Ops {
		if op.Op == "delete_attr" && i < len(out.Results) && out.Results[i].OK() {
			dels++
		}
	}
	res.NonTrivial = out.Final != nil && out.Final.OpenErr == "" && (cfg != "default" || toggles > 0)
	res.Fingerprint = fmt.Sprintf("content|%s|t%d|d%d|sb%d", cfg, min(toggles, 4), min(dels, 5), t.Config.SB)
	return res
}

// --- selector part ---------------------------------------------------------

func genC19Selector(r *rng.R, tier string) *trace.Trace {
	t := &trace.Trace{}
	t.Config.Mode = rng.Pick(r, []string{"selector", "selector", "selector-scripted"})
	// constraints are encoded in Extra: minConf, stabilityNs, allowed modes (|-separated), window, minSample, capacity, jumps
	minConf := rng.Pick(r, []float64{0, 0.3, 0.5, 0.7, 0.9, 1.0})
	stab := rng.Pick(r, []int64{0, 1, 1e9, 30e9, 3600e9})
	allowed := rng.Pick(r, []string{"", "", "none", "lazy", "incremental", "lazy|incremental", "none|lazy", "none|lazy|incremental"})
	window := rng.Pick(r, []int64{1e9, 60e9, 300e9})
	minSample := rng.Pick(r, []int{1, 10, 100})
	capacity := rng.Pick(r, []int{10, 1000, 10000})
	jumps := r.Chance(0.25) // clock faults: backward / far-forward jumps
	t.Config.Extra = []string{fmt.Sprint(minConf), fmt.Sprint(stab), allowed, fmt.Sprint(window), fmt.Sprint(minSample), fmt.Sprint(capacity), fmt.Sprint(jumps)}
	n := r.Range(5, 200)
	if tier == "thorough" {
		n = r.Range(5, 500)
	}
	sizes := []uint64{0, 1 << 10, 99 << 20, 100 << 20, 101 << 20, 499 << 20, 501 << 20, 1023 << 20, 1025 << 20, 10 << 30}
	size := rng.Pick(r, sizes)
	mix := []int{r.Range(0, 10), r.Range(0, 10), r.Range(0, 10)}
	for i := 0; i < n; i++ {
		if r.Chance(0.05) {
			mix = []int{r.Range(0, 10), r.Range(0, 10), r.Range(0, 10)}
			size = rng.Pick(r, sizes)
		}
		switch r.Weighted([]int{60, 25, 15}) {
		case 0: // a burst of operations with a chosen rate
			cnt := r.Range(1, 40)
			gap := rng.Pick(r, []int64{0, 1, 1000, 1e6, 1e8, 1e9, 100e9})
			for k := 0; k < cnt; k++ {
				t.Ops = append(t.Ops, trace.Op{Op: "sel_record", N: r.Weighted(mix), Val: size, DurNs: gap})
			}
		case 1:
			op := trace.Op{Op: "sel_evaluate"}
			if t.Config.Mode == "selector-scripted" {
				// raw decision of the stub strategy: mode and confidence (incl. exactly the minimum)
				op.Key = rng.Pick(r, []string{"none", "lazy", "incremental", "lazy", "incremental", "bogus"})
				c := rng.Pick(r, []float64{0, 0.1, minConf, math.Nextafter(minConf, 0), math.Nextafter(minConf, 2), 0.99, 1})
				op.Val = math.Float64bits(c)
			}
			t.Ops = append(t.Ops, op)
		case 2:
			d := rng.Pick(r, []int64{0, 1, 1e6, 1e9, 29e9, 30e9, 31e9, 600e9, 7200e9})
			if jumps && r.Chance(0.4) {
				d = rng.Pick(r, []int64{-1, -1e9, -3600e9, 1e15})
			}
			t.Ops = append(t.Ops, trace.Op{Op: "sel_advance", DurNs: d})
		}
	}
	t.Ops = append(t.Ops, trace.Op{Op: "sel_evaluate", Key: "lazy", Val: math.Float64bits(1)})
	return t
}

type recStrategy struct {
	inner  rebalancing.SelectionStrategy
	script *rebalancing.Decision
	last   rebalancing.Decision
	calls  int
}

func (s *recStrategy) Select(f rebalancing.WorkloadFeatures, w rebalancing.WorkloadType) rebalancing.Decision {
	s.calls++
	if s.script != nil {
		s.last = *s.script
		return s.last
	}
	s.last = s.inner.Select(f, w)
	return s.last
}

type stubTree struct{ size uint64 }

func (s *stubTree) EnableLazyRebalancing(structures.LazyRebalancingConfig) error { return nil }
func (s *stubTree) EnableIncrementalRebalancing(structures.IncrementalRebalancingConfig) error {
	return nil
}
func (s *stubTree) DisableRebalancing() error                        { return nil }
func (s *stubTree) StartBackgroundRebalancing(context.Context) error { return nil }
func (s *stubTree) StopBackgroundRebalancing() error                 { return nil }
func (s *stubTree) GetFileSize() uint64                              { return s.size }

func execC19Selector(t *trace.Trace) *harness.RunResult {
	res := &harness.RunResult{Probes: map[string]int{}, Fired: map[string]int{}}
	viol := func(oracle, class, detail string, i int) {
		res.Violations = append(res.Violations, trace.Violation{Property: "C19", Oracle: oracle, Class: class, Detail: fmt.Sprintf("op %d: %s", i, detail), OpIndex: i})
	}
	ex := t.Config.Extra
	if len(ex) < 7 {
		res.Infra = "bad selector trace"
		return res
	}
	var minConf float64
	var stab, window int64
	var minSample, capacity int
	var jumps bool
	fmt.Sscan(ex[0], &minConf)
	fmt.Sscan(ex[1], &stab)
	fmt.Sscan(ex[3], &window)
	fmt.Sscan(ex[4], &minSample)
	fmt.Sscan(ex[5], &capacity)
	fmt.Sscan(ex[6], &jumps)
	var allowed []rebalancing.Mode
	if ex[2] != "" {
		for _, m := range strings.Split(ex[2], "|") {
			allowed = append(allowed, rebalancing.Mode(m))
		}
	}
	isAllowed := func(m rebalancing.Mode) bool {
		if len(allowed) == 0 {
			return true
		}
		for _, a := range allowed {
			if a == m {
				return true
			}
		}
		return false
	}
	clk := &SimClock{T: epoch}
	cons := rebalancing.SafetyConstraints{MaxCPUPercent: 50, MaxMemoryMB: 100, MinStabilityPeriod: time.Duration(stab), MinConfidence: minConf, AllowedModes: allowed}
	rec := &recStrategy{inner: &rebalancing.RuleBasedStrategy{}}
	scripted := t.Config.Mode == "selector-scripted"
	var pan string
	var sr *rebalancing.SmartRebalancer
	tree := &stubTree{}
	func() {
		defer recoverTo(&pan)
		det := rebalancing.NewWorkloadDetector(rebalancing.WithClock(clk), rebalancing.WithWindowSize(time.Duration(window)),
			rebalancing.WithMinSampleSize(minSample), rebalancing.WithCapacity(capacity))
		sel := rebalancing.NewConfigSelector(rebalancing.WithSafetyConstraints(cons), rebalancing.WithStrategy(rec), rebalancing.WithSelectorClock(clk))
		sr = rebalancing.NewSmartRebalancer(tree, rebalancing.WithDetector(det), rebalancing.WithSelector(sel), rebalancing.WithRebalancerClock(clk))
	}()
	if pan != "" {
		viol("panic", "constructor:"+ErrClass(pan), pan, 0)
		return res
	}
	monotone := true
	rawModes := map[rebalancing.Mode]bool{}
	// stability bookkeeping over gate-passing decisions
	var runMode rebalancing.Mode
	var runStart time.Time
	have := false
	evals := 0
	for i := range t.Ops {
		op := &t.Ops[i]
		switch op.Op {
		case "sel_record":
			tree.size = op.Val
			clk.T = clk.T.Add(time.Duration(op.DurNs))
			func() {
				defer recoverTo(&pan)
				_ = sr.RecordOperation(rebalancing.OperationType(op.N))
			}()
		case "sel_advance":
			if op.DurNs < 0 || op.DurNs > int64(1e14) {
				monotone = false
				res.Fired["clock_jump"]++
			}
			clk.T = clk.T.Add(time.Duration(op.DurNs))
		case "sel_evaluate":
			if scripted {
				rec.script = &rebalancing.Decision{Mode: rebalancing.Mode(op.Key), Confidence: math.Float64frombits(op.Val), Reason: "scripted"}
				switch op.Key {
				case "lazy":
					c := structures.DefaultLazyConfig()
					rec.script.Config = &c
				case "incremental":
					c := structures.DefaultIncrementalConfig()
					rec.script.Config = &c
				}
			}
			var d rebalancing.Decision
			before := rec.calls
			func() {
				defer recoverTo(&pan)
				d, _ = sr.Evaluate()
			}()
			if pan != "" {
				break
			}
			evals++
			if rec.calls != before+1 {
				res.Probes["strategy-not-consulted"]++
				continue
			}
			raw := rec.last
			rawModes[raw.Mode] = true
			now := clk.T
			// 1. allowed-modes gate
			if d.Mode != rebalancing.ModeNone && !isAllowed(d.Mode) {
				viol("selector", "mode-not-allowed", fmt.Sprintf("returned mode %q, allowed %v (raw %q conf %.3f)", d.Mode, allowed, raw.Mode, raw.Confidence), i)
			}
			// 2. confidence range (the library's own strategy only)
			if !scripted && (math.IsNaN(d.Confidence) || d.Confidence < 0 || d.Confidence > 1) {
				viol("selector", "confidence-out-of-range", fmt.Sprintf("confidence %v", d.Confidence), i)
			}
			// 3. confidence gate
			if raw.Confidence < minConf && d.Mode != rebalancing.ModeNone {
				viol("selector", "low-confidence-not-none", fmt.Sprintf("raw confidence %.17g < minimum %.17g but mode %q returned", raw.Confidence, minConf, d.Mode), i)
			}
			passed := raw.Confidence >= minConf && isAllowed(raw.Mode)
			if !passed {
				res.Probes["gate-fired"]++
				continue
			}
			// 4. stability, in its weakest sound form, only under a monotone clock
			if monotone {
				if have && d.Mode != runMode {
					if el := now.Sub(runStart); el < time.Duration(stab) {
						viol("selector", "mode-changed-within-stability-period", fmt.Sprintf("mode %q -> %q after %v, stability period %v", runMode, d.Mode, el, time.Duration(stab)), i)
					}
				}
				if have && d.Mode == runMode && raw.Mode != d.Mode {
					res.Probes["stability-gate-fired"]++
				}
			}
			if !have || d.Mode != runMode {
				runMode, runStart, have = d.Mode, now, true
			}
		}
		if pan != "" {
			viol("panic", op.Op+":"+ErrClass(pan), pan, i)
			break
		}
	}
	res.Ops = len(t.Ops)
	res.SimNs = int64(clk.T.Sub(epoch))
	if res.SimNs < 0 {
		res.SimNs = 0
	}
	ms := make([]string, 0, len(rawModes))
	for m := range rawModes {
		ms = append(ms, string(m))
	}
	sort.Strings(ms)
	res.NonTrivial = len(rawModes) >= 2
	res.Fingerprint = fmt.Sprintf("%s|%s|%s|%s|%v|%d", t.Config.Mode, ex[0], ex[1], ex[2], jumps, min(evals, 6)) + strings.Join(ms, ",")
	return res
}

func init() {
	harness.Register(&harness.Prop{
		ID: "C19", Engine: "E1", Level: "exploration", Gen: genC19, Exec: execC19,
		Runs:      map[string]int{"quick": 100000, "thorough": 3000000},
		Rule:      "two kinds of seeded runs. Content: a C02 attribute history is executed under a seeded rebalancing configuration (off / lazy / incremental / lazy+incremental / smart with any options) with toggles (disable/enable rebalancing, enable/disable lazy, force batch, enable/stop incremental, rebalance all, rebalance one attribute index) inserted at random points, and again under the default configuration without toggles; the logical dumps after restart must be identical (and equal to the model). Selector: seeded sequences of workload observations (operation mixes, rates 0.01/s .. 1e9/s, file sizes around 100 MB/500 MB/1 GB, bursts, idle gaps) and evaluations drive the real WorkloadDetector + ConfigSelector + SmartRebalancer.Evaluate under a simulated Clock, incl. clock faults (backward and far-forward jumps), for all constraint settings; a recording (end-to-end) or scripted strategy installed through WithStrategy gives the raw pre-gate decision; invariants on every returned Decision: mode in allowed-or-none, confidence in [0,1], low raw confidence => none, and no mode change within the stability period among gate-passing decisions (monotone-clock runs only); non-trivial = non-default configuration or a toggle (content), >= 2 distinct raw modes (selector); distinct by configuration class / constraint setting",
		Technique: "deterministic simulation: configuration differential over simulated histories; selector under a simulated clock with clock faults",
		Assumptions: []string{"'none' is always a permissible returned mode (the statement's own fallback)",
			"the stability invariant is checked in its weakest sound form (time since the start of the current run of identical returned modes) and only when the simulated clock is monotone",
			"the FileWriter-level background options start no goroutines in this version, so the content part needs no scheduler"},
		RealVsStub: map[string]string{"real": "all of /repo incl. internal/rebalancing detector/selector/smart rebalancer", "simulated": "rebalancing.Clock, disk layer", "stub": "the rebalancing.BTreeV2 adapter (file size only) in the selector part; a scripted SelectionStrategy in the scripted configuration"},
	})
}
