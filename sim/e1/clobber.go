package e1

import (
	"sort"

	"github.com/scigolib/hdf5/verifsim/disk"
)

type extent struct {
	s, e int64
	fn   string
}

// ClobberClass replays a write log and looks for the first write that
// straddles extents established by earlier writes: it partially covers space
// last written for another structure. In-place rewrites (inside one extent),
// rewrites that cover whole adjacent extents exactly, and growth into fresh
// space are legitimate. Returns "" when nothing straddles.
//
// This is used only to attribute an oracle failure (file no longer opens) to
// the writer that caused it, so that one root cause maps to one signature.
func ClobberClass(log []disk.LogEntry) string {
	var ext []extent
	for _, le := range log {
		if le.Op != "write" || le.Err || le.Len == 0 {
			continue
		}
		s, e := le.Off, le.Off+int64(le.Len)
		// overlapping extents
		lo := sort.Search(len(ext), func(i int) bool { return ext[i].e > s })
		hi := lo
		for hi < len(ext) && ext[hi].s < e {
			hi++
		}
		if lo == hi {
			ext = append(ext, extent{})
			copy(ext[lo+1:], ext[lo:])
			ext[lo] = extent{s, e, le.Fn}
			continue
		}
		first, last := ext[lo], ext[hi-1]
		switch {
		case hi-lo == 1 && s >= first.s && e <= first.e:
			// inside one extent
		case s == first.s && e >= last.e:
			// covers whole extents exactly from a boundary; growth past the end
			// is fine only if it does not enter another extent (it doesn't: hi is exclusive)
			if hi-lo > 1 || e > last.e {
				// growth of one structure over following structures written by other functions
				if hi-lo > 1 && !sameFn(ext[lo:hi]) {
					return "clobber-by:" + le.Fn
				}
			}
			ne := extent{s, e, le.Fn}
			ext = append(ext[:lo], append([]extent{ne}, ext[hi:]...)...)
		case s >= first.s && e <= last.e && hi-lo > 1 && sameFn(ext[lo:hi]):
			// spans pieces of the same structure
		default:
			return "clobber-by:" + le.Fn
		}
	}
	return ""
}

func sameFn(x []extent) bool {
	for i := 1; i < len(x); i++ {
		if x[i].fn != x[0].fn {
			return false
		}
	}
	return true
}
