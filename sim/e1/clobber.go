package e1

import (
	"sort"
	"strings"

	"github.com/scigolib/hdf5/verifsim/disk"
)

type extent struct {
	s, e int64
	fn   string
	op   int // trace op during which the extent was first written
}

// ClobberClass replays a write log and looks for the first write that GROWS a
// structure over a structure created by a later operation: the write starts
// exactly where an existing extent E1 starts, is longer than E1, and reaches
// into an extent E2 that was first written during a later trace operation than
// E1 (in-place growth of an object header over the object allocated after it).
// In-place rewrites of the same size, growth into fresh space, and writes that
// merely span pieces created by the same operation are legitimate.
//
// It is used to attribute an oracle failure to its cause, so that one root
// cause maps to one signature whatever the consequence was.
func ClobberClass(log []disk.LogEntry) string {
	var ext []extent
	for _, le := range log {
		if le.Op != "write" || le.Err || le.Len == 0 {
			continue
		}
		if le.Len == 1 && strings.HasSuffix(le.Fn, ".(*FileWriter).Close") {
			// Close extends the file to the allocated end with one zero byte; that
			// byte lies inside space reserved for whatever was allocated last
			continue
		}
		s, e := le.Off, le.Off+int64(le.Len)
		lo := sort.Search(len(ext), func(i int) bool { return ext[i].e > s })
		hi := lo
		for hi < len(ext) && ext[hi].s < e {
			hi++
		}
		if lo == hi {
			ext = append(ext, extent{})
			copy(ext[lo+1:], ext[lo:])
			ext[lo] = extent{s, e, le.Fn, le.OpIdx}
			continue
		}
		first := ext[lo]
		if s == first.s && e > first.e {
			for _, x := range ext[lo+1 : hi] {
				if x.op > first.op {
					return "clobber-by:" + le.Fn
				}
			}
		}
		// merge what the write covers into the first extent when it extends it
		if s == first.s && e > first.e && hi-lo == 1 {
			ext[lo].e = e
		}
	}
	return ""
}
