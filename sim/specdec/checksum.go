package specdec

// Lookup3 is Bob Jenkins' lookup3 "hashlittle" function, which the HDF5
// specification uses (as H5_checksum_lookup3, initval 0) for every metadata
// checksum and for the name hashes stored in version-2 B-tree records.
func Lookup3(key []byte, initval uint32) uint32 {
	rot := func(x uint32, k uint) uint32 { return (x << k) | (x >> (32 - k)) }
	le := func(b []byte) uint32 {
		return uint32(b[0]) | uint32(b[1])<<8 | uint32(b[2])<<16 | uint32(b[3])<<24
	}
	n := len(key)
	a := 0xdeadbeef + uint32(n) + initval
	b, c := a, a
	k := key
	for len(k) > 12 {
		a += le(k[0:])
		b += le(k[4:])
		c += le(k[8:])
		// mix(a,b,c)
		a -= c
		a ^= rot(c, 4)
		c += b
		b -= a
		b ^= rot(a, 6)
		a += c
		c -= b
		c ^= rot(b, 8)
		b += a
		a -= c
		a ^= rot(c, 16)
		c += b
		b -= a
		b ^= rot(a, 19)
		a += c
		c -= b
		c ^= rot(b, 4)
		b += a
		k = k[12:]
	}
	if len(k) == 0 {
		return c
	}
	// Last block: the remaining 1..12 bytes, zero-extended.
	var tail [12]byte
	copy(tail[:], k)
	a += le(tail[0:])
	b += le(tail[4:])
	c += le(tail[8:])
	// final(a,b,c)
	c ^= b
	c -= rot(b, 14)
	a ^= c
	a -= rot(c, 11)
	b ^= a
	b -= rot(a, 25)
	c ^= b
	c -= rot(b, 16)
	a ^= c
	a -= rot(c, 4)
	b ^= a
	b -= rot(a, 14)
	c ^= b
	c -= rot(b, 24)
	return c
}

// fletcher32 is the checksum used by the Fletcher32 filter: the data is summed as
// a sequence of 16-bit big-endian words, an odd trailing byte is treated as the
// high byte of a final word.
func fletcher32(data []byte) uint32 {
	var sum1, sum2 uint32
	n := len(data) / 2
	i := 0
	for n > 0 {
		t := n
		if t > 360 {
			t = 360
		}
		n -= t
		for ; t > 0; t-- {
			sum1 += uint32(data[i])<<8 | uint32(data[i+1])
			sum2 += sum1
			i += 2
		}
		sum1 = (sum1 & 0xffff) + (sum1 >> 16)
		sum2 = (sum2 & 0xffff) + (sum2 >> 16)
	}
	if len(data)%2 == 1 {
		sum1 += uint32(data[len(data)-1]) << 8
		sum2 += sum1
		sum1 = (sum1 & 0xffff) + (sum1 >> 16)
		sum2 = (sum2 & 0xffff) + (sum2 >> 16)
	}
	sum1 = (sum1 & 0xffff) + (sum1 >> 16)
	sum2 = (sum2 & 0xffff) + (sum2 >> 16)
	return sum2<<16 | sum1
}
