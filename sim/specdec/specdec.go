// Package specdec is an independent decoder of the HDF5 file format written
// directly from the "HDF5 File Format Specification Version 3.0". It shares no
// code with the library under test and is used as a second opinion: it decodes a
// complete file image into a structural description (Result), records the byte
// extent of every on-disk structure it understands, and reports every place where
// the bytes deviate from the specification as a Finding.
//
// Conventions:
//   - Every address stored in a Result (object addresses, link targets, extents)
//     is an ABSOLUTE file offset: the superblock base address has already been
//     added. Undefined addresses are never stored; they are represented by the
//     absence of the structure.
//   - The decoder is lenient: after reporting a Finding it continues wherever the
//     remaining bytes can still be interpreted.
//   - Structures that exist in the specification but are not implemented here are
//     recorded in Result.Limitations, never as Findings.
package specdec

import (
	"fmt"
	"sort"
)

// Extent is a byte range [Start,End) of the file occupied by one on-disk structure.
type Extent struct {
	Start, End uint64
	Kind       string // "superblock","ohdr-v1","ohdr-v2","ohdr-cont","local-heap-hdr","local-heap-data","btree-v1-group","btree-v1-chunk","snod","contiguous-data","chunk","gcol","frhp","fhdb","fhib","bthd","btlf","btin", ...
	Owner      string // address (hex, "0x..") of the object header that owns it, or "" for the superblock
}

// Finding is a conformance problem. Class is a short stable identifier.
type Finding struct {
	Class  string
	Addr   uint64
	Detail string
}

// Member is one member of a compound datatype.
type Member struct {
	Name   string
	Offset uint32
	Type   *Datatype
}

// Datatype is a decoded datatype message.
type Datatype struct {
	Class      int    // HDF5 class number 0..10
	Version    int    // datatype message version 1..4
	Size       uint32 // element size in bytes
	BitField   uint32 // 24-bit class bit field
	Signed     bool   // class 0: bit 3
	BigEndian  bool   // class 0/1/4: bit 0
	Base       *Datatype
	ArrayDims  []uint32
	Members    []Member
	EnumNames  []string
	EnumValues [][]byte
	VLenString bool // class 9 with type=string
	OpaqueTag  string
}

// Attr is a decoded attribute.
type Attr struct {
	Name string
	Type *Datatype
	Dims []uint64
	Data []byte
	VLen [][]byte // class 9 attributes: elements resolved through the global heap
}

// Filter is one entry of a filter pipeline message.
type Filter struct {
	ID         uint16
	Name       string
	Flags      uint16
	ClientData []uint32
}

// Link is one link of a group.
type Link struct {
	Name   string
	Kind   string // "hard","soft","external"
	Addr   uint64 // hard: absolute object header address
	Target string // soft: path; external: object path
	File   string // external: file name
}

// Object is one decoded object header plus everything hanging off it.
type Object struct {
	Addr          uint64
	Kind          string // "group","dataset","datatype","unknown"
	HeaderVersion int
	RefCount      uint32
	Links         []Link
	Type          *Datatype
	Dims, MaxDims []uint64
	Layout        string // "compact","contiguous","chunked",""
	LayoutVersion int
	ChunkDims     []uint32 // as stored (may include the trailing element-size dimension)
	Filters       []Filter
	Data          []byte
	DataErr       string
	VLen          [][]byte
	Attrs         []Attr
	AttrStorage   string // "none","compact","dense"
	MsgTypes      []uint16

	// NullSpace is true when the dataspace is a version-2 "null" dataspace.
	NullSpace bool
	// LinkStorage is "symbol-table", "compact", "dense" or "" (not a group).
	LinkStorage string
}

// Result is the outcome of decoding one file image.
type Result struct {
	SuperblockVersion      int
	OffsetSize, LengthSize int
	BaseAddr, EOFAddr      uint64
	RootAddr               uint64
	FileSize               uint64
	Objects                map[uint64]*Object
	Extents                []Extent
	Findings               []Finding
	Limitations            []string

	// SuperblockAddr is the file offset at which the superblock signature was found.
	SuperblockAddr uint64

	limSeen map[string]bool
	// fullNodes are the specification-sized (2K) extents of version-1 B-tree
	// nodes; Extents holds only the part of the node that is in use, so that a
	// writer that allocates short nodes gets one precise finding instead of a
	// cascade of overlaps.
	fullNodes   []Extent
	layoutDone  bool
	findingsCap bool
}

const (
	maxFindings   = 5000
	maxDataBytes  = 256 << 20 // refuse to materialise datasets larger than this
	maxDepth      = 64        // recursion cap for every tree-shaped structure
	maxObjects    = 1 << 20
	maxWalkVisits = 1 << 20
)

func (r *Result) addFinding(class string, addr uint64, format string, args ...any) {
	if len(r.Findings) >= maxFindings {
		r.findingsCap = true
		return
	}
	r.Findings = append(r.Findings, Finding{Class: class, Addr: addr, Detail: fmt.Sprintf(format, args...)})
}

func (r *Result) addLimitation(s string) {
	if r.limSeen == nil {
		r.limSeen = map[string]bool{}
	}
	if r.limSeen[s] {
		return
	}
	r.limSeen[s] = true
	r.Limitations = append(r.Limitations, s)
}

// HasFinding reports whether a finding of the given class was recorded.
func (r *Result) HasFinding(class string) bool {
	for _, f := range r.Findings {
		if f.Class == class {
			return true
		}
	}
	return false
}

// FindingClasses returns the sorted set of finding classes.
func (r *Result) FindingClasses() []string {
	m := map[string]bool{}
	for _, f := range r.Findings {
		m[f.Class] = true
	}
	out := make([]string, 0, len(m))
	for k := range m {
		out = append(out, k)
	}
	sort.Strings(out)
	return out
}

// Decode decodes a complete file image. It never panics: an internal panic is
// converted into a Finding of class "decoder-panic".
func Decode(file []byte) (res *Result) {
	res = &Result{
		FileSize: uint64(len(file)),
		Objects:  map[uint64]*Object{},
	}
	defer func() {
		if p := recover(); p != nil {
			res.addFinding("decoder-panic", 0, "%v", p)
		}
		// CheckLayout has its own recover; run it even after a panic so the
		// extents collected so far are still validated.
		if !res.layoutDone {
			res.CheckLayout()
		}
	}()
	d := &decoder{f: file, res: res}
	d.run()
	res.checkRefCounts()
	return res
}

// checkRefCounts compares every object's stored reference count (1 when the
// header carries no reference count message) with the number of hard links that
// name it in the groups of this file; the root group has one implicit reference
// from the superblock. Class "refcount-link-count".
func (r *Result) checkRefCounts() {
	links := map[uint64]int{}
	fromDense := map[uint64]bool{} // named by a link that is stored densely (fractal heap + B-tree v2)
	if r.Objects[r.RootAddr] != nil {
		links[r.RootAddr]++
	}
	addrs := make([]uint64, 0, len(r.Objects))
	for a, o := range r.Objects {
		addrs = append(addrs, a)
		for _, l := range o.Links {
			if l.Kind == "hard" {
				links[l.Addr]++
				if o.LinkStorage == "dense" {
					fromDense[l.Addr] = true
				}
			}
		}
	}
	sort.Slice(addrs, func(i, j int) bool { return addrs[i] < addrs[j] })
	for _, a := range addrs {
		o := r.Objects[a]
		n := links[a]
		if n == 0 || o.HeaderVersion == 0 {
			continue // unreachable or undecoded header: nothing to compare
		}
		rc := o.RefCount
		if rc == 0 {
			rc = 1
		}
		if int(rc) != n {
			cls := "refcount-link-count"
			if fromDense[a] {
				cls = "refcount-link-count:dense-group-link"
			}
			r.addFinding(cls, a, "object header stores reference count %d, %d hard link(s) name the object", rc, n)
		}
	}
}

// Walk visits every path reachable from the root through hard links depth-first
// in stored link order. A group that is already on the current path is reported
// but not descended into. Soft and external links are reported with o == nil.
// The root is reported with path "/" and l == nil.
func (r *Result) Walk(fn func(path string, o *Object, l *Link)) {
	root := r.Objects[r.RootAddr]
	if root == nil {
		return
	}
	visits := 0
	onPath := map[uint64]bool{}
	var rec func(path string, o *Object, depth int)
	rec = func(path string, o *Object, depth int) {
		if depth > 4096 {
			return
		}
		onPath[o.Addr] = true
		defer delete(onPath, o.Addr)
		for i := range o.Links {
			if visits >= maxWalkVisits {
				return
			}
			visits++
			l := &o.Links[i]
			var p string
			if path == "/" {
				p = "/" + l.Name
			} else {
				p = path + "/" + l.Name
			}
			if l.Kind != "hard" {
				fn(p, nil, l)
				continue
			}
			child := r.Objects[l.Addr]
			fn(p, child, l)
			if child != nil && len(child.Links) > 0 && !onPath[child.Addr] {
				rec(p, child, depth+1)
			}
		}
	}
	fn("/", root, nil)
	rec("/", root, 0)
}

// Lookup resolves an absolute path through hard links only.
func (r *Result) Lookup(path string) *Object {
	var found *Object
	r.Walk(func(p string, o *Object, _ *Link) {
		if found == nil && p == path && o != nil {
			found = o
		}
	})
	return found
}

// CheckLayout appends Findings for: any extent outside [0,FileSize) (class
// "out-of-bounds"); any extent beyond EOFAddr (class "beyond-eof-address"); any
// two extents that overlap (class "overlap", Detail names both kinds). It also
// reports version-1 B-tree nodes whose specification-mandated size (2K entries)
// does not fit where the writer put them (class "btree-v1-node-short-allocation").
// Called by Decode.
func (r *Result) CheckLayout() {
	defer func() {
		if p := recover(); p != nil {
			r.addFinding("decoder-panic", 0, "CheckLayout: %v", p)
		}
	}()
	r.layoutDone = true

	// Deduplicate identical extents (a structure reachable along two paths).
	type key struct {
		s, e uint64
		k    string
	}
	seen := map[key]bool{}
	ext := make([]Extent, 0, len(r.Extents))
	for _, e := range r.Extents {
		k := key{e.Start, e.End, e.Kind}
		if seen[k] {
			continue
		}
		seen[k] = true
		ext = append(ext, e)
	}
	sort.SliceStable(ext, func(i, j int) bool {
		if ext[i].Start != ext[j].Start {
			return ext[i].Start < ext[j].Start
		}
		return ext[i].End < ext[j].End
	})
	r.Extents = ext

	for _, e := range ext {
		if e.End < e.Start || e.End > r.FileSize {
			r.addFinding("out-of-bounds", e.Start, "%s [%#x,%#x) owner %s exceeds file size %#x", e.Kind, e.Start, e.End, e.Owner, r.FileSize)
		} else if r.EOFAddr != 0 && e.End > r.EOFAddr {
			r.addFinding("beyond-eof-address", e.Start, "%s [%#x,%#x) owner %s ends after superblock EOF address %#x", e.Kind, e.Start, e.End, e.Owner, r.EOFAddr)
		}
	}

	// Sweep for overlaps. Zero-length extents cannot overlap anything.
	nz := ext[:0:0]
	for _, e := range ext {
		if e.End > e.Start {
			nz = append(nz, e)
		}
	}
	reported := 0
	for i := 0; i < len(nz) && reported < 200; i++ {
		for j := i + 1; j < len(nz) && nz[j].Start < nz[i].End; j++ {
			a, b := nz[i], nz[j]
			r.addFinding("overlap", b.Start, "%s [%#x,%#x) owner %s overlaps %s [%#x,%#x) owner %s",
				a.Kind, a.Start, a.End, a.Owner, b.Kind, b.Start, b.End, b.Owner)
			reported++
			if reported >= 200 {
				break
			}
		}
	}

	// Specification-sized B-tree v1 nodes.
	for _, fn := range r.fullNodes {
		if fn.End > r.FileSize {
			r.addFinding("btree-v1-node-short-allocation", fn.Start, "%s node needs [%#x,%#x) for 2K entries but the file ends at %#x", fn.Kind, fn.Start, fn.End, r.FileSize)
			continue
		}
		// first extent with Start >= fn.Start+1 that begins inside the node
		idx := sort.Search(len(nz), func(i int) bool { return nz[i].Start > fn.Start })
		if idx < len(nz) && nz[idx].Start < fn.End {
			o := nz[idx]
			r.addFinding("btree-v1-node-short-allocation", fn.Start, "%s node needs [%#x,%#x) for 2K entries but %s [%#x,%#x) owner %s lies inside it",
				fn.Kind, fn.Start, fn.End, o.Kind, o.Start, o.End, o.Owner)
		}
	}
}

// ---------------------------------------------------------------------------
// Bounds-checked little-endian cursor.

// cur reads little-endian integers from a byte slice. Reading past the end sets
// bad and returns zero values; it never panics.
type cur struct {
	b   []byte
	p   int
	bad bool
}

func (c *cur) left() int {
	if c.p > len(c.b) {
		return 0
	}
	return len(c.b) - c.p
}

func (c *cur) need(n int) bool {
	if n < 0 || c.bad || c.p < 0 || c.p > len(c.b) || n > len(c.b)-c.p {
		c.bad = true
		return false
	}
	return true
}

func (c *cur) u8() uint8 {
	if !c.need(1) {
		return 0
	}
	v := c.b[c.p]
	c.p++
	return v
}

func (c *cur) u16() uint16 { return uint16(c.uN(2)) }
func (c *cur) u32() uint32 { return uint32(c.uN(4)) }
func (c *cur) u64() uint64 { return c.uN(8) }

// uN reads an n-byte little-endian unsigned integer (1 <= n <= 8).
func (c *cur) uN(n int) uint64 {
	if n < 0 || n > 8 {
		c.bad = true
		return 0
	}
	if !c.need(n) {
		return 0
	}
	var v uint64
	for i := 0; i < n; i++ {
		v |= uint64(c.b[c.p+i]) << (8 * uint(i))
	}
	c.p += n
	return v
}

func (c *cur) bytes(n int) []byte {
	if !c.need(n) {
		return nil
	}
	v := c.b[c.p : c.p+n]
	c.p += n
	return v
}

func (c *cur) skip(n int) {
	if c.need(n) {
		c.p += n
	}
}

// cstr reads a NUL-terminated string (the NUL is consumed). ok is false when no
// terminator was found before the end of the buffer.
func (c *cur) cstr() (string, bool) {
	if c.bad || c.p > len(c.b) {
		c.bad = true
		return "", false
	}
	for i := c.p; i < len(c.b); i++ {
		if c.b[i] == 0 {
			s := string(c.b[c.p:i])
			c.p = i + 1
			return s, true
		}
	}
	s := string(c.b[c.p:])
	c.p = len(c.b)
	return s, false
}

// ---------------------------------------------------------------------------
// Small arithmetic helpers.

func mulOK(a, b uint64) (uint64, bool) {
	if a == 0 || b == 0 {
		return 0, true
	}
	p := a * b
	if p/b != a {
		return 0, false
	}
	return p, true
}

func addOK(a, b uint64) (uint64, bool) {
	s := a + b
	return s, s >= a
}

// log2floor returns floor(log2(v)) for v > 0 and 0 for v == 0.
func log2floor(v uint64) uint {
	var n uint
	for v > 1 {
		v >>= 1
		n++
	}
	return n
}

// limitEncSize is the number of bytes the specification uses to encode values
// up to and including limit: floor(log2(limit))/8 + 1.
func limitEncSize(limit uint64) int { return int(log2floor(limit)/8) + 1 }

func ownerOf(addr uint64) string { return fmt.Sprintf("%#x", addr) }

func trimNul(b []byte) string {
	for i, c := range b {
		if c == 0 {
			return string(b[:i])
		}
	}
	return string(b)
}

func pad8(n int) int { return (n + 7) &^ 7 }
