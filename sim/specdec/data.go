package specdec

import (
	"bytes"
	"compress/gzip"
	"compress/zlib"
	"fmt"
	"io"
)

// Raw data: contiguous / compact / chunked storage, the chunk B-tree (version-1
// B-tree node type 1), the filter pipeline and global heap collections.

// chunkRec is one chunk as described by its index.
type chunkRec struct {
	offs []uint64 // element offsets, one per layout dimension
	size uint64   // stored (filtered) size in bytes
	mask uint32   // filter mask: bit i set = filter i was skipped
	addr uint64
}

func (d *decoder) readDatasetData(o *Object, s *dataspace, lay *layoutInfo, owner string) {
	n, ok := s.numElements()
	total, ok2 := mulOK(n, uint64(o.Type.Size))
	if !ok || !ok2 {
		o.DataErr = "element count overflows"
		d.finding("dataspace-overflow", o.Addr, "number of elements x element size overflows 64 bits")
		return
	}
	if total > maxDataBytes {
		o.DataErr = fmt.Sprintf("dataset of %d bytes exceeds the decoder's %d byte cap", total, maxDataBytes)
		d.res.addLimitation("datasets larger than 256 MiB are not materialised")
		// extents are still worth recording for chunked data
		if lay.class != 2 {
			return
		}
	}
	switch lay.class {
	case 0: // compact
		if uint64(len(lay.compact)) != total {
			d.finding("compact-size-mismatch", o.Addr, "compact data is %d bytes, dataspace x datatype is %d", len(lay.compact), total)
		}
		buf := make([]byte, total)
		copy(buf, lay.compact)
		o.Data = buf
	case 1: // contiguous
		if lay.haveSize && lay.addrOK && lay.size != total {
			d.finding("contiguous-size-mismatch", o.Addr, "layout message size %d, dataspace x datatype is %d", lay.size, total)
		}
		if !lay.addrOK {
			o.Data = make([]byte, total) // storage not allocated: fill value (zeros)
			return
		}
		size := total
		if lay.haveSize {
			size = lay.size
		}
		d.extent(lay.addr, size, "contiguous-data", owner)
		b := d.slice(lay.addr, total)
		if b == nil {
			o.DataErr = "contiguous data runs past the end of the file"
			return // CheckLayout reports the extent
		}
		o.Data = append([]byte(nil), b...)
	case 2:
		d.readChunked(o, s, lay, total, owner)
	default:
		o.DataErr = "layout class not implemented"
	}
}

func (d *decoder) readChunked(o *Object, s *dataspace, lay *layoutInfo, total uint64, owner string) {
	rank := len(s.dims)
	nd := lay.dimensionality
	elem := uint64(o.Type.Size)
	var cdims []uint64
	switch {
	case nd == rank+1:
		for _, v := range lay.chunkDims[:rank] {
			cdims = append(cdims, uint64(v))
		}
		if es := uint64(lay.chunkDims[rank]); es != elem {
			d.finding("layout-element-size", o.Addr, "chunked layout's trailing dimension (element size) is %d, datatype size is %d", es, elem)
		}
	case nd == rank && rank > 0:
		d.finding("layout-dimensionality", o.Addr, "chunked layout dimensionality is %d for a rank-%d dataset; the specification requires rank+1 (trailing element-size dimension)", nd, rank)
		for _, v := range lay.chunkDims {
			cdims = append(cdims, uint64(v))
		}
	default:
		d.finding("layout-dimensionality", o.Addr, "chunked layout dimensionality is %d for a rank-%d dataset", nd, rank)
		o.DataErr = "chunk dimensionality does not match dataspace rank"
		return
	}
	chunkBytes := elem
	for i, v := range cdims {
		if v == 0 {
			d.finding("chunk-dimension-zero", o.Addr, "chunk dimension %d is zero", i)
			o.DataErr = "zero chunk dimension"
			return
		}
		var ok bool
		if chunkBytes, ok = mulOK(chunkBytes, v); !ok || chunkBytes > 1<<32 {
			d.finding("chunk-size-overflow", o.Addr, "chunk size exceeds 4 GiB")
			o.DataErr = "chunk too large"
			return
		}
	}

	if chunkBytes > maxDataBytes {
		o.DataErr = "chunk larger than the decoder's cap"
		d.res.addLimitation("chunks larger than 256 MiB are not materialised")
		return
	}

	// Collect the chunk records from whichever index the layout names.
	var recs []chunkRec
	if lay.version <= 3 {
		if lay.addrOK {
			visited := map[uint64]bool{}
			d.walkChunkBtree(lay.addr, nd, owner, 0, -1, visited, &recs)
		}
	} else {
		var ok bool
		if recs, ok = d.v4ChunkIndex(o, s, lay, cdims, chunkBytes, owner); !ok {
			return
		}
	}
	for _, r := range recs {
		d.extent(r.addr, r.size, "chunk", owner)
	}
	if total > maxDataBytes {
		return
	}

	out := make([]byte, total)
	for _, r := range recs {
		for i := 0; i < rank && i < len(r.offs); i++ {
			if r.offs[i]%cdims[i] != 0 {
				d.finding("chunk-key-not-multiple", r.addr, "chunk offset %v is not a multiple of the chunk dimensions %v", r.offs, cdims)
				break
			}
		}
		if nd == rank+1 && len(r.offs) > rank && r.offs[rank] != 0 {
			d.finding("chunk-key-trailing-offset", r.addr, "chunk key's element-size offset is %d, must be 0", r.offs[rank])
		}
		outside := false
		for i := 0; i < rank; i++ {
			if i >= len(r.offs) || r.offs[i] >= s.dims[i] {
				outside = true
			}
		}
		raw := d.slice(r.addr, r.size)
		if raw == nil {
			o.DataErr = "chunk runs past the end of the file"
			continue // CheckLayout reports the extent
		}
		if len(o.Filters) == 0 && r.size != chunkBytes {
			d.finding("chunk-size-mismatch", r.addr, "unfiltered chunk stored with %d bytes, chunk dimensions x element size is %d", r.size, chunkBytes)
		}
		mask := r.mask
		if lay.version >= 4 && lay.v4flags&0x01 != 0 {
			// "do not filter partial edge chunks"
			for i := 0; i < rank && i < len(r.offs); i++ {
				if r.offs[i]+cdims[i] > s.dims[i] {
					mask = ^uint32(0)
				}
			}
		}
		data, err := d.unfilter(raw, o.Filters, mask, r.addr, int(chunkBytes))
		if err != "" {
			o.DataErr = err
			continue
		}
		if uint64(len(data)) != chunkBytes {
			d.finding("chunk-size-mismatch", r.addr, "chunk decodes to %d bytes, chunk dimensions x element size is %d", len(data), chunkBytes)
			// scatterChunk copies only what is there; the rest stays zero
		}
		if outside {
			// Chunks wholly outside the current extent are legal leftovers of a
			// shrunk dataset; nothing to copy.
			continue
		}
		scatterChunk(out, data, s.dims, cdims, r.offs[:rank], int(elem))
	}
	if o.DataErr != "" {
		return
	}
	o.Data = out
}

// scatterChunk copies the in-bounds part of a chunk into the row-major dataset buffer.
func scatterChunk(out, chunk []byte, dims, cdims, offs []uint64, elem int) {
	rank := len(dims)
	if rank == 0 {
		copy(out, chunk)
		return
	}
	// number of elements of the last dimension that are inside the dataset
	last := rank - 1
	runElems := cdims[last]
	if offs[last]+runElems > dims[last] {
		runElems = dims[last] - offs[last]
	}
	run := int(runElems) * elem
	idx := make([]uint64, rank) // index inside the chunk; idx[last] stays 0
	for {
		inside := true
		var dpos, cpos uint64
		for i := 0; i < rank; i++ {
			g := offs[i] + idx[i]
			if g >= dims[i] {
				inside = false
				break
			}
			dpos = dpos*dims[i] + g
			cpos = cpos*cdims[i] + idx[i]
		}
		if inside {
			ds, cs := dpos*uint64(elem), cpos*uint64(elem)
			if ds+uint64(run) <= uint64(len(out)) && cs+uint64(run) <= uint64(len(chunk)) {
				copy(out[ds:ds+uint64(run)], chunk[cs:cs+uint64(run)])
			}
		}
		// advance idx over all dimensions except the last
		k := last - 1
		for ; k >= 0; k-- {
			idx[k]++
			if idx[k] < cdims[k] && offs[k]+idx[k] < dims[k] {
				break
			}
			idx[k] = 0
		}
		if k < 0 {
			return
		}
	}
}

// walkChunkBtree traverses a version-1 B-tree of node type 1 (raw data chunks).
// nd is the number of offsets per key (the layout's dimensionality).
func (d *decoder) walkChunkBtree(addr uint64, nd int, owner string, depth, wantLevel int, visited map[uint64]bool, out *[]chunkRec) {
	if depth > maxDepth || visited[addr] {
		d.finding("btree-cycle", addr, "version-1 chunk B-tree node reached twice or nesting too deep")
		return
	}
	visited[addr] = true
	c, level, used, ok := d.btreeV1Header(addr, 1)
	if !ok {
		return
	}
	keySize := 8 + 8*nd
	d.recordBtreeV1Extent(addr, "btree-v1-chunk", owner, used, d.istoreK, keySize)
	if wantLevel >= 0 && level != wantLevel {
		d.finding("btree-level", addr, "node level %d, parent implies %d", level, wantLevel)
	}
	if used > 1<<16 {
		used = 1 << 16
	}
	for i := 0; i < used; i++ {
		r := chunkRec{}
		r.size = uint64(c.u32())
		r.mask = c.u32()
		r.offs = make([]uint64, nd)
		for k := range r.offs {
			r.offs[k] = c.u64()
		}
		child, def := d.addr(c)
		if c.bad {
			d.finding("out-of-bounds", addr, "version-1 chunk B-tree node with %d entries runs past the end of the file", used)
			return
		}
		if !def {
			d.finding("btree-child-undefined", addr, "child %d has an undefined address", i)
			continue
		}
		if level > 0 {
			d.walkChunkBtree(child, nd, owner, depth+1, level-1, visited, out)
		} else {
			r.addr = child
			*out = append(*out, r)
		}
	}
	c.skip(keySize) // final key
	if c.bad {
		d.finding("out-of-bounds", addr, "version-1 chunk B-tree node with %d entries runs past the end of the file", used)
	}
}

// v4ChunkIndex enumerates chunks for version-4 layout messages. Single-chunk,
// implicit and fixed-array indexes are implemented.
func (d *decoder) v4ChunkIndex(o *Object, s *dataspace, lay *layoutInfo, cdims []uint64, chunkBytes uint64, owner string) ([]chunkRec, bool) {
	rank := len(s.dims)
	if !lay.addrOK {
		return nil, true
	}
	// number of chunks per dimension, total
	nchunks := uint64(1)
	per := make([]uint64, rank)
	for i := range per {
		per[i] = (s.dims[i] + cdims[i] - 1) / cdims[i]
		if lay.indexType != 1 && s.maxDims != nil && s.maxDims[i] != ^uint64(0) && s.maxDims[i] > s.dims[i] {
			// fixed-array and implicit indexes are sized by the maximum dimensions
			per[i] = (s.maxDims[i] + cdims[i] - 1) / cdims[i]
		}
		var ok bool
		if nchunks, ok = mulOK(nchunks, per[i]); !ok || nchunks > 1<<24 {
			o.DataErr = "too many chunks"
			d.res.addLimitation("chunk indexes with more than 1<<24 chunks not enumerated")
			return nil, false
		}
	}
	offsOf := func(i uint64) []uint64 {
		offs := make([]uint64, rank+1)
		for k := rank - 1; k >= 0; k-- {
			offs[k] = (i % per[k]) * cdims[k]
			i /= per[k]
		}
		return offs
	}
	switch lay.indexType {
	case 1:
		r := chunkRec{offs: make([]uint64, rank+1), size: chunkBytes, addr: lay.addr}
		if lay.v4flags&0x02 != 0 {
			r.size, r.mask = lay.scSize, lay.scMask
		}
		return []chunkRec{r}, true
	case 2:
		var recs []chunkRec
		for i := uint64(0); i < nchunks; i++ {
			recs = append(recs, chunkRec{offs: offsOf(i), size: chunkBytes, addr: lay.addr + i*chunkBytes})
		}
		return recs, true
	case 3:
		return d.fixedArrayChunks(lay.addr, nchunks, chunkBytes, offsOf, owner, o)
	case 4:
		o.DataErr = "extensible array chunk index not implemented"
		d.res.addLimitation("extensible array chunk index (EAHD) not implemented")
	case 5:
		o.DataErr = "version-2 B-tree chunk index not implemented"
		d.res.addLimitation("version-2 B-tree chunk index (record types 10/11) not implemented")
	}
	return nil, false
}

// fixedArrayChunks reads a fixed array chunk index ("FAHD" / "FADB").
func (d *decoder) fixedArrayChunks(addr, nchunks, chunkBytes uint64, offsOf func(uint64) []uint64, owner string, o *Object) ([]chunkRec, bool) {
	c := &cur{b: d.tail(addr)}
	if string(c.bytes(4)) != "FAHD" {
		d.finding("fixed-array-signature", addr, "fixed array header does not start with \"FAHD\"")
		o.DataErr = "bad fixed array header"
		return nil, false
	}
	c.u8() // version
	client := c.u8()
	entrySize := int(c.u8())
	pageBits := uint(c.u8())
	nelem := d.length(c)
	dblk, def := d.addr(c)
	sumAt := c.p
	stored := c.u32()
	if c.bad {
		d.finding("out-of-bounds", addr, "fixed array header truncated")
		o.DataErr = "bad fixed array header"
		return nil, false
	}
	d.extent(addr, uint64(c.p), "fahd", owner)
	if got := Lookup3(c.b[:sumAt], 0); got != stored {
		d.finding("fahd-checksum", addr, "%s", checksumNote(c.b[:sumAt], stored, got))
	}
	if !def {
		return nil, true
	}
	if nelem > 1<<24 || pageBits > 32 {
		o.DataErr = "fixed array too large"
		return nil, false
	}
	wantEntry := d.O
	if client == 1 {
		wantEntry = entrySize // address + variable-size chunk length + 4-byte mask
		if entrySize < d.O+5 || entrySize > d.O+12 {
			d.finding("fixed-array-entry-size", addr, "filtered-chunk entry size %d", entrySize)
			o.DataErr = "bad fixed array entry size"
			return nil, false
		}
	} else if entrySize != d.O {
		d.finding("fixed-array-entry-size", addr, "entry size %d, size of offsets %d", entrySize, d.O)
	}
	bc := &cur{b: d.tail(dblk)}
	if string(bc.bytes(4)) != "FADB" {
		d.finding("fixed-array-signature", dblk, "fixed array data block does not start with \"FADB\"")
		o.DataErr = "bad fixed array data block"
		return nil, false
	}
	bc.u8()
	bc.u8()
	bc.uN(d.O) // header address
	pageElems := uint64(1) << pageBits
	paged := nelem > pageElems
	var recs []chunkRec
	readElems := func(ec *cur, first, n uint64) {
		for i := uint64(0); i < n; i++ {
			r := chunkRec{size: chunkBytes}
			a, adef := d.addr(ec)
			if client == 1 {
				r.size = ec.uN(wantEntry - d.O - 4)
				r.mask = ec.u32()
			}
			if ec.bad {
				return
			}
			if adef && first+i < nchunks {
				r.addr = a
				r.offs = offsOf(first + i)
				recs = append(recs, r)
			}
		}
	}
	if !paged {
		readElems(bc, 0, nelem)
		sumAt := bc.p
		stored := bc.u32()
		if bc.bad {
			d.finding("out-of-bounds", dblk, "fixed array data block truncated")
			o.DataErr = "bad fixed array data block"
			return nil, false
		}
		d.extent(dblk, uint64(bc.p), "fadb", owner)
		if got := Lookup3(bc.b[:sumAt], 0); got != stored {
			d.finding("fadb-checksum", dblk, "%s", checksumNote(bc.b[:sumAt], stored, got))
		}
		return recs, true
	}
	npages := (nelem + pageElems - 1) / pageElems
	bitmap := bc.bytes(int((npages + 7) / 8))
	sumAt = bc.p
	stored = bc.u32()
	if bc.bad {
		d.finding("out-of-bounds", dblk, "fixed array data block truncated")
		o.DataErr = "bad fixed array data block"
		return nil, false
	}
	if got := Lookup3(bc.b[:sumAt], 0); got != stored {
		d.finding("fadb-checksum", dblk, "%s", checksumNote(bc.b[:sumAt], stored, got))
	}
	pageSize := pageElems*uint64(entrySize) + 4
	lastElems := nelem - (npages-1)*pageElems
	d.extent(dblk, uint64(bc.p)+(npages-1)*pageSize+lastElems*uint64(entrySize)+4, "fadb", owner)
	pos := dblk + uint64(bc.p)
	for p := uint64(0); p < npages; p++ {
		n := pageElems
		if p == npages-1 {
			n = lastElems
		}
		if bitmap[p/8]&(0x80>>(p%8)) != 0 {
			pc := &cur{b: d.tail(pos)}
			readElems(pc, p*pageElems, n)
			at := pc.p
			st := pc.u32()
			if pc.bad {
				d.finding("out-of-bounds", pos, "fixed array data block page truncated")
			} else if got := Lookup3(pc.b[:at], 0); got != st {
				d.finding("fadb-checksum", pos, "page %d: stored %#08x computed %#08x", p, st, got)
			}
		}
		pos += n*uint64(entrySize) + 4
	}
	return recs, true
}

// unfilter reverses the filter pipeline on one chunk.
func (d *decoder) unfilter(raw []byte, filters []Filter, mask uint32, at uint64, chunkBytes int) ([]byte, string) {
	data := raw
	for i := len(filters) - 1; i >= 0; i-- {
		if i < 32 && mask&(1<<uint(i)) != 0 {
			continue // filter was skipped for this chunk
		}
		f := filters[i]
		switch f.ID {
		case 1: // deflate
			var zr io.Reader
			var err error
			if len(data) >= 2 && data[0] == 0x1f && data[1] == 0x8b {
				// RFC 1952 gzip member instead of the RFC 1950 zlib stream that
				// the deflate filter is defined to produce.
				d.finding("deflate-gzip-wrapper", at, "deflate-filtered chunk is a gzip (RFC 1952) member; the HDF5 deflate filter stores a zlib (RFC 1950) stream")
				zr, err = gzip.NewReader(bytes.NewReader(data))
			} else {
				zr, err = zlib.NewReader(bytes.NewReader(data))
			}
			if err != nil {
				d.finding("deflate-error", at, "chunk is not a zlib stream: %v", err)
				return nil, "deflate stream corrupt"
			}
			limit := int64(chunkBytes) + 1<<16
			out, err := io.ReadAll(io.LimitReader(zr, limit))
			if err != nil {
				d.finding("deflate-error", at, "inflating chunk: %v", err)
				return nil, "deflate stream corrupt"
			}
			data = out
		case 2: // shuffle
			es := 0
			if len(f.ClientData) > 0 {
				es = int(f.ClientData[0])
			}
			if es > 1 && len(data) >= es {
				n := len(data) / es
				out := make([]byte, len(data))
				for b := 0; b < es; b++ {
					for e := 0; e < n; e++ {
						out[e*es+b] = data[b*n+e]
					}
				}
				copy(out[n*es:], data[n*es:]) // leftover bytes are stored unshuffled
				data = out
			}
		case 3: // fletcher32: 4-byte checksum appended
			if len(data) < 4 {
				d.finding("fletcher32-mismatch", at, "chunk of %d bytes is too short to hold a checksum", len(data))
				return nil, "fletcher32 chunk too short"
			}
			body := data[:len(data)-4]
			stored := (&cur{b: data[len(data)-4:]}).u32()
			got := fletcher32(body)
			// Files written before HDF5 1.6.3 stored the two 16-bit halves byte-swapped.
			swapped := (got&0x00ff00ff)<<8 | (got&0xff00ff00)>>8
			if stored != got && stored != swapped {
				d.finding("fletcher32-mismatch", at, "stored %#08x computed %#08x", stored, got)
			}
			data = body
		case 32000: // LZF
			out, ok := lzfDecompress(data, chunkBytes)
			if !ok {
				d.finding("lzf-error", at, "LZF stream corrupt")
				return nil, "lzf stream corrupt"
			}
			data = out
		default:
			d.res.addLimitation(fmt.Sprintf("filter %d (%s) not implemented", f.ID, f.Name))
			return nil, fmt.Sprintf("filter %d not implemented", f.ID)
		}
	}
	return data, ""
}

// lzfDecompress decodes Marc Lehmann's LZF format as used by the h5py LZF filter.
func lzfDecompress(in []byte, sizeHint int) ([]byte, bool) {
	out := make([]byte, 0, sizeHint)
	limit := sizeHint + 1<<16
	for i := 0; i < len(in); {
		ctrl := int(in[i])
		i++
		if ctrl < 32 {
			n := ctrl + 1
			if i+n > len(in) {
				return nil, false
			}
			out = append(out, in[i:i+n]...)
			i += n
		} else {
			n := ctrl >> 5
			if n == 7 {
				if i >= len(in) {
					return nil, false
				}
				n += int(in[i])
				i++
			}
			if i >= len(in) {
				return nil, false
			}
			ref := len(out) - ((ctrl&0x1f)<<8 | int(in[i])) - 1
			i++
			if ref < 0 {
				return nil, false
			}
			for k := 0; k < n+2; k++ {
				out = append(out, out[ref+k])
			}
		}
		if len(out) > limit {
			return nil, false
		}
	}
	return out, true
}

// ---------------------------------------------------------------------------
// Global heap.

type gcol struct {
	ok      bool
	objects map[uint16][]byte
}

// gcolAt parses (once) the global heap collection at addr.
func (d *decoder) gcolAt(addr uint64, owner string) *gcol {
	if g, ok := d.gcols[addr]; ok {
		return g
	}
	g := &gcol{objects: map[uint16][]byte{}}
	d.gcols[addr] = g
	c := &cur{b: d.tail(addr)}
	sig := c.bytes(4)
	if c.bad || string(sig) != "GCOL" {
		d.finding("gcol-signature", addr, "global heap collection does not start with \"GCOL\"")
		return g
	}
	if v := c.u8(); v != 1 {
		d.finding("gcol-version", addr, "global heap collection version %d", v)
	}
	c.skip(3)
	size := d.length(c)
	if c.bad {
		d.finding("out-of-bounds", addr, "global heap collection header truncated")
		return g
	}
	hdr := uint64(c.p)
	d.extent(addr, size, "gcol", owner)
	if size < 4096 {
		d.finding("gcol-size", addr, "collection size %d is below the 4096-byte minimum", size)
	}
	if size%8 != 0 {
		d.finding("gcol-alignment", addr, "collection size %d is not a multiple of 8", size)
	}
	body := d.slice(addr, size)
	if body == nil {
		// extent check reports out-of-bounds; parse what is there
		body = d.tail(addr)
		if size < hdr {
			d.finding("gcol-size", addr, "collection size %d is smaller than its own header", size)
			return g
		}
	}
	g.ok = true
	objHdr := uint64(8 + d.L)
	p := hdr
	for p+objHdr <= uint64(len(body)) {
		oc := &cur{b: body[p:]}
		idx := oc.u16()
		oc.u16() // reference count
		oc.u32() // reserved
		osize := d.length(oc)
		if idx == 0 {
			// Free space: its size includes the object header and it must run
			// to the end of the collection. A zero-filled tail also lands here.
			if osize != 0 && p+osize != uint64(len(body)) {
				// One particular deviation is common enough to get its own class: the
				// size leaves out the free-space object's own header. Any other extent
				// is a different defect.
				cls := "gcol-free-space-extent"
				if p+osize+objHdr == uint64(len(body)) {
					cls = "gcol-free-space"
				}
				d.finding(cls, addr+p, "free-space object of %d bytes at offset %d does not end at the collection end %d", osize, p, len(body))
			}
			break
		}
		if p%8 != 0 {
			d.finding("gcol-alignment", addr+p, "heap object %d starts at unaligned offset %d", idx, p)
		}
		if osize > uint64(len(body)) || p+objHdr+osize > uint64(len(body)) {
			d.finding("gcol-object-overrun", addr+p, "heap object %d of %d bytes at offset %d exceeds the collection of %d bytes", idx, osize, p, len(body))
			break
		}
		if _, dup := g.objects[idx]; dup {
			d.finding("gcol-duplicate-index", addr+p, "heap object index %d appears twice", idx)
		} else {
			g.objects[idx] = body[p+objHdr : p+objHdr+osize]
		}
		p += objHdr + uint64(pad8(int(osize)))
	}
	return g
}

// resolveVLen resolves each element of a class-9 dataset or attribute through
// the global heap. A nil element is a null reference (undefined / zero address).
func (d *decoder) resolveVLen(data []byte, t *Datatype, owner string) [][]byte {
	es := 4 + d.O + 4
	if int(t.Size) != es || t.Base == nil {
		return nil
	}
	n := len(data) / es
	out := make([][]byte, n)
	isGcol := func(rel uint64) bool {
		a, ok := addOK(rel, d.base)
		b := d.slice(a, 4)
		return ok && b != nil && string(b) == "GCOL"
	}
	// The specification's element is {4-byte length, O-byte collection address,
	// 4-byte object index}. Decide by the bytes whether the file instead uses
	// {address, index, 4 unused bytes} (no length): that reading is chosen only
	// when no element makes sense the specified way and at least one does the
	// other way.
	specOK, altOK := 0, 0
	for i := 0; i < n; i++ {
		e := data[i*es : (i+1)*es]
		if a := (&cur{b: e[4:]}).uN(d.O); a != d.undef && a != 0 && isGcol(a) {
			specOK++
		}
		if a := (&cur{b: e}).uN(d.O); a != d.undef && a != 0 && isGcol(a) {
			altOK++
		}
	}
	alt := specOK == 0 && altOK > 0
	if alt {
		d.finding("vlen-element-layout", 0, "variable-length elements are stored as {heap address, object index, 4 unused bytes}; the specification requires {4-byte length, heap address, object index}")
	}
	for i := 0; i < n; i++ {
		c := &cur{b: data[i*es : (i+1)*es]}
		var count, raw uint64
		var idx uint32
		if alt {
			raw = c.uN(d.O)
			idx = c.u32()
		} else {
			count = uint64(c.u32())
			raw = c.uN(d.O)
			idx = c.u32()
		}
		if raw == d.undef || (raw == 0 && idx == 0) {
			continue // null reference
		}
		g := d.gcolAt(raw+d.base, owner)
		if !g.ok {
			continue
		}
		obj, ok := g.objects[uint16(idx)]
		if !ok || idx > 0xffff {
			d.finding("gcol-object-missing", raw+d.base, "element %d references heap object %d which is not in the collection", i, idx)
			continue
		}
		want := uint64(len(obj))
		if !alt {
			want, _ = mulOK(count, uint64(t.Base.Size))
			if want > uint64(len(obj)) {
				d.finding("vlen-length-mismatch", raw+d.base, "element %d has %d x %d bytes, heap object %d holds %d", i, count, t.Base.Size, idx, len(obj))
				want = uint64(len(obj))
			}
		}
		out[i] = append([]byte{}, obj[:want]...)
	}
	return out
}
