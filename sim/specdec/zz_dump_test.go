package specdec

import (
	"fmt"
	"os"
	"testing"

	hdf5 "github.com/scigolib/hdf5"
)

func TestZZDump(t *testing.T) {
	dir := os.Getenv("SPECDEC_DUMP")
	if dir == "" {
		t.Skip()
	}
	os.MkdirAll(dir, 0o755)
	mk := func(name string, opts []interface{}, build func(fw *hdf5.FileWriter)) {
		fw, err := hdf5.CreateForWrite(dir+"/"+name, hdf5.CreateTruncate, opts...)
		if err != nil {
			t.Fatal(err)
		}
		build(fw)
		if err := fw.Close(); err != nil {
			t.Fatal(err)
		}
	}
	mk("contig2.h5", nil, func(fw *hdf5.FileWriter) {
		ds, _ := fw.CreateDataset("/ints", hdf5.Int32, []uint64{3, 4})
		ds.Write([]int32{1, 2, 3, 4, 5, 6, 7, 8, 9, 10, 11, 12})
	})
	mk("contig0.h5", []interface{}{hdf5.WithSuperblockVersion(0)}, func(fw *hdf5.FileWriter) {
		ds, _ := fw.CreateDataset("/ints", hdf5.Int32, []uint64{3, 4})
		ds.Write([]int32{1, 2, 3, 4, 5, 6, 7, 8, 9, 10, 11, 12})
	})
	mk("chunkgz.h5", nil, func(fw *hdf5.FileWriter) {
		ds, err := fw.CreateDataset("/c", hdf5.Int32, []uint64{7, 5}, hdf5.WithChunkDims([]uint64{3, 2}), hdf5.WithShuffle(), hdf5.WithGZIPCompression(6))
		if err != nil {
			t.Fatal(err)
		}
		v := make([]int32, 35)
		for i := range v {
			v[i] = int32(i)
		}
		ds.Write(v)
	})
	mk("attr12.h5", nil, func(fw *hdf5.FileWriter) {
		ds, _ := fw.CreateDataset("/d", hdf5.Int32, []uint64{2})
		ds.Write([]int32{7, 8})
		for i := 0; i < 12; i++ {
			if err := ds.WriteAttribute(fmt.Sprintf("attr_%02d", i), int32(100+i)); err != nil {
				t.Fatal(err)
			}
		}
	})
	mk("vlen.h5", nil, func(fw *hdf5.FileWriter) {
		ds, _ := fw.CreateDataset("/strings", hdf5.VLenString, []uint64{3})
		ds.Write([]string{"short", "medium length", ""})
	})
	mk("dense.h5", nil, func(fw *hdf5.FileWriter) {
		links := map[string]string{}
		for i := 0; i < 3; i++ {
			name := fmt.Sprintf("/t%02d", i)
			ds, _ := fw.CreateDataset(name, hdf5.Int32, []uint64{1})
			ds.Write([]int32{int32(i)})
			links[fmt.Sprintf("link%02d", i)] = name
		}
		if err := fw.CreateDenseGroup("/dense", links); err != nil {
			t.Fatal(err)
		}
	})
	mk("links.h5", nil, func(fw *hdf5.FileWriter) {
		fw.CreateGroup("/g1")
		ds, _ := fw.CreateDataset("/g1/data", hdf5.Int32, []uint64{1})
		ds.Write([]int32{5})
		fw.CreateHardLink("/alias", "/g1/data")
		fw.CreateSoftLink("/soft", "/g1/data")
		fw.CreateExternalLink("/ext", "other.h5", "/x/y")
	})
}
