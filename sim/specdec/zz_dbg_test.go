package specdec

import (
	"fmt"
	"os"
	"testing"
)

func TestZZDebug(t *testing.T) {
	p := os.Getenv("SPECDEC_FILE")
	if p == "" {
		t.Skip()
	}
	b, err := os.ReadFile(p)
	if err != nil {
		t.Fatal(err)
	}
	r := Decode(b)
	fmt.Printf("sb v%d O=%d L=%d base=%#x eof=%#x root=%#x size=%#x\n", r.SuperblockVersion, r.OffsetSize, r.LengthSize, r.BaseAddr, r.EOFAddr, r.RootAddr, r.FileSize)
	r.Walk(func(path string, o *Object, l *Link) {
		if o == nil {
			fmt.Printf("%s -> %+v\n", path, *l)
			return
		}
		fmt.Printf("%s @%#x kind=%s hv=%d rc=%d msgs=%v dims=%v layout=%s/%d chunk=%v filters=%v attrs=%s/%d links=%d dataerr=%q datalen=%d\n",
			path, o.Addr, o.Kind, o.HeaderVersion, o.RefCount, o.MsgTypes, o.Dims, o.Layout, o.LayoutVersion, o.ChunkDims, o.Filters, o.AttrStorage, len(o.Attrs), len(o.Links), o.DataErr, len(o.Data))
		if o.Type != nil {
			fmt.Printf("    type %+v\n", *o.Type)
		}
		for _, a := range o.Attrs {
			fmt.Printf("    attr %q dims=%v data=% x\n", a.Name, a.Dims, a.Data)
		}
	})
	for _, e := range r.Extents {
		fmt.Printf("  ext [%#x,%#x) %s %s\n", e.Start, e.End, e.Kind, e.Owner)
	}
	for _, f := range r.Findings {
		fmt.Printf("  FINDING %s @%#x %s\n", f.Class, f.Addr, f.Detail)
	}
	for _, l := range r.Limitations {
		fmt.Printf("  LIMIT %s\n", l)
	}
}
