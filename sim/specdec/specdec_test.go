package specdec

import (
	"fmt"
	"os"
	"path/filepath"
	"sort"
	"strings"
	"testing"
	"time"
)

func TestLookup3Vectors(t *testing.T) {
	if got := Lookup3(nil, 0); got != 0xdeadbeef {
		t.Errorf("lookup3(\"\",0) = %#x", got)
	}
	s := []byte("Four score and seven years ago")
	if got := Lookup3(s, 0); got != 0x17770551 {
		t.Errorf("lookup3(s,0) = %#x", got)
	}
	if got := Lookup3(s, 1); got != 0xcd628161 {
		t.Errorf("lookup3(s,1) = %#x", got)
	}
}

func corpusFiles(t *testing.T) []string {
	var files []string
	err := filepath.Walk("/repo/testdata", func(p string, info os.FileInfo, err error) error {
		if err != nil || info.IsDir() {
			return nil
		}
		if (strings.HasSuffix(p, ".h5") || strings.HasSuffix(p, ".hdf5")) && info.Size() <= 8<<20 {
			files = append(files, p)
		}
		return nil
	})
	if err != nil {
		t.Fatal(err)
	}
	sort.Strings(files)
	return files
}

func TestCorpus(t *testing.T) {
	files := corpusFiles(t)
	if len(files) == 0 {
		t.Skip("no corpus")
	}
	clean := 0
	classCount := map[string]int{}
	classFiles := map[string][]string{}
	limCount := map[string]int{}
	kindCount := map[string]int{}
	dataErr := map[string]int{}
	nObjects, nDatasets, nWithData := 0, 0, 0
	for _, p := range files {
		b, err := os.ReadFile(p)
		if err != nil {
			t.Fatal(err)
		}
		start := time.Now()
		r := Decode(b)
		if el := time.Since(start); el > 5*time.Second {
			t.Errorf("%s: decode took %v", p, el)
		}
		if r.HasFinding("decoder-panic") {
			t.Errorf("%s: decoder panic: %+v", p, r.Findings)
		}
		if len(r.Findings) == 0 {
			clean++
		}
		for _, c := range r.FindingClasses() {
			classCount[c]++
			classFiles[c] = append(classFiles[c], strings.TrimPrefix(p, "/repo/testdata/"))
		}
		for _, l := range r.Limitations {
			limCount[l]++
		}
		for _, e := range r.Extents {
			kindCount[e.Kind]++
		}
		for _, o := range r.Objects {
			if o == nil {
				continue
			}
			nObjects++
			if o.Kind == "dataset" {
				nDatasets++
				if o.DataErr == "" {
					nWithData++
				} else {
					dataErr[o.DataErr]++
				}
			}
		}
		if os.Getenv("SPECDEC_VERBOSE") != "" && len(r.Findings) > 0 {
			fmt.Printf("== %s\n", p)
			for i, f := range r.Findings {
				if i > 8 {
					break
				}
				fmt.Printf("   %s @%#x: %s\n", f.Class, f.Addr, f.Detail)
			}
		}
	}
	t.Logf("corpus: %d files decoded, %d with zero findings", len(files), clean)
	var cs []string
	for c := range classCount {
		cs = append(cs, c)
	}
	sort.Strings(cs)
	for _, c := range cs {
		fl := classFiles[c]
		if len(fl) > 6 {
			fl = append(fl[:6:6], "...")
		}
		t.Logf("  finding %-34s %3d files: %s", c, classCount[c], strings.Join(fl, " "))
	}
	t.Logf("  objects %d, datasets %d, datasets fully materialised %d", nObjects, nDatasets, nWithData)
	t.Logf("  extents by kind: %v", kindCount)
	t.Logf("  DataErr reasons: %v", dataErr)
	var ls []string
	for l := range limCount {
		ls = append(ls, l)
	}
	sort.Strings(ls)
	for _, l := range ls {
		t.Logf("  limitation (%d files): %s", limCount[l], l)
	}
}

// TestDecodeFile prints the decoded structure of the file named by SPECDEC_FILE
// (debugging aid; skipped otherwise).
func TestDecodeFile(t *testing.T) {
	p := os.Getenv("SPECDEC_FILE")
	if p == "" {
		t.Skip("set SPECDEC_FILE to dump one file")
	}
	b, err := os.ReadFile(p)
	if err != nil {
		t.Fatal(err)
	}
	r := Decode(b)
	fmt.Printf("superblock v%d O=%d L=%d base=%#x eof=%#x root=%#x size=%#x\n", r.SuperblockVersion, r.OffsetSize, r.LengthSize, r.BaseAddr, r.EOFAddr, r.RootAddr, r.FileSize)
	r.Walk(func(path string, o *Object, l *Link) {
		if o == nil {
			fmt.Printf("%q -> %+v\n", path, *l)
			return
		}
		fmt.Printf("%q @%#x kind=%s hdr=v%d rc=%d msgs=%#x dims=%v layout=%s/v%d chunk=%v filters=%v attrs=%s/%d links=%s/%d dataerr=%q datalen=%d\n",
			path, o.Addr, o.Kind, o.HeaderVersion, o.RefCount, o.MsgTypes, o.Dims, o.Layout, o.LayoutVersion, o.ChunkDims, o.Filters, o.AttrStorage, len(o.Attrs), o.LinkStorage, len(o.Links), o.DataErr, len(o.Data))
		if o.Type != nil {
			fmt.Printf("    type %+v\n", *o.Type)
		}
		for _, a := range o.Attrs {
			fmt.Printf("    attr %q dims=%v data=% x\n", a.Name, a.Dims, a.Data)
		}
	})
	for _, e := range r.Extents {
		fmt.Printf("  extent [%#x,%#x) %s %s\n", e.Start, e.End, e.Kind, e.Owner)
	}
	for _, f := range r.Findings {
		fmt.Printf("  FINDING %s @%#x %s\n", f.Class, f.Addr, f.Detail)
	}
	for _, l := range r.Limitations {
		fmt.Printf("  LIMITATION %s\n", l)
	}
}
