package specdec

// Tests that decode files produced by the library under test through its public API.

import (
	"bytes"
	"encoding/binary"
	"fmt"
	"math"
	"os"
	"path/filepath"
	"testing"

	hdf5 "github.com/scigolib/hdf5"
)

func leI32(v []int32) []byte {
	b := make([]byte, 4*len(v))
	for i, x := range v {
		binary.LittleEndian.PutUint32(b[4*i:], uint32(x))
	}
	return b
}

func leF64(v []float64) []byte {
	b := make([]byte, 8*len(v))
	for i, x := range v {
		binary.LittleEndian.PutUint64(b[8*i:], math.Float64bits(x))
	}
	return b
}

// writeFile creates a file, lets build populate it, closes it and decodes it.
func writeFile(t *testing.T, name string, opts []interface{}, build func(fw *hdf5.FileWriter)) *Result {
	t.Helper()
	path := filepath.Join(t.TempDir(), name)
	fw, err := hdf5.CreateForWrite(path, hdf5.CreateTruncate, opts...)
	if err != nil {
		t.Fatalf("CreateForWrite: %v", err)
	}
	build(fw)
	if err := fw.Close(); err != nil {
		t.Fatalf("Close: %v", err)
	}
	b, err := os.ReadFile(path)
	if err != nil {
		t.Fatal(err)
	}
	r := Decode(b)
	if r.HasFinding("decoder-panic") {
		t.Fatalf("decoder panic: %+v", r.Findings)
	}
	logFindings(t, name, r)
	return r
}

func logFindings(t *testing.T, name string, r *Result) {
	t.Helper()
	seen := map[string]int{}
	for _, f := range r.Findings {
		seen[f.Class]++
		if seen[f.Class] <= 2 {
			t.Logf("%s: finding %s @%#x: %s", name, f.Class, f.Addr, f.Detail)
		}
	}
	for _, l := range r.Limitations {
		t.Logf("%s: limitation: %s", name, l)
	}
}

func paths(r *Result) map[string]*Object {
	m := map[string]*Object{}
	r.Walk(func(p string, o *Object, l *Link) {
		if o != nil {
			m[p] = o
		}
	})
	return m
}

func mustDataset(t *testing.T, r *Result, path string, class int, size uint32, dims []uint64) *Object {
	t.Helper()
	o := paths(r)[path]
	if o == nil {
		t.Fatalf("%s not found by Walk; have %v", path, keys(paths(r)))
	}
	if o.Kind != "dataset" {
		t.Fatalf("%s: kind %q", path, o.Kind)
	}
	if o.Type == nil || o.Type.Class != class || o.Type.Size != size {
		t.Fatalf("%s: type %+v, want class %d size %d", path, o.Type, class, size)
	}
	if fmt.Sprint(o.Dims) != fmt.Sprint(dims) {
		t.Fatalf("%s: dims %v want %v", path, o.Dims, dims)
	}
	if o.DataErr != "" {
		t.Fatalf("%s: DataErr %q", path, o.DataErr)
	}
	return o
}

func keys(m map[string]*Object) []string {
	var k []string
	for s := range m {
		k = append(k, s)
	}
	return k
}

func check(t *testing.T, err error) {
	t.Helper()
	if err != nil {
		t.Fatal(err)
	}
}

func TestLibContiguous(t *testing.T) {
	for _, sv := range []uint8{0, 2, 3} {
		t.Run(fmt.Sprintf("sb%d", sv), func(t *testing.T) {
			ints := []int32{1, -2, 3, -4, 5, 6, 7, 8, 9, 10, 11, 12}
			floats := []float64{1.5, -2.25, 3e10, 4}
			r := writeFile(t, "contig.h5", []interface{}{hdf5.WithSuperblockVersion(sv)}, func(fw *hdf5.FileWriter) {
				ds, err := fw.CreateDataset("/ints", hdf5.Int32, []uint64{3, 4})
				check(t, err)
				check(t, ds.Write(ints))
				ds2, err := fw.CreateDataset("/floats", hdf5.Float64, []uint64{4})
				check(t, err)
				check(t, ds2.Write(floats))
			})
			if r.SuperblockVersion != int(sv) {
				t.Errorf("superblock version %d want %d", r.SuperblockVersion, sv)
			}
			o := mustDataset(t, r, "/ints", 0, 4, []uint64{3, 4})
			if !o.Type.Signed || o.Type.BigEndian {
				t.Errorf("int32 type flags: %+v", o.Type)
			}
			if o.Layout != "contiguous" {
				t.Errorf("layout %q", o.Layout)
			}
			if !bytes.Equal(o.Data, leI32(ints)) {
				t.Errorf("ints data mismatch: % x", o.Data)
			}
			f := mustDataset(t, r, "/floats", 1, 8, []uint64{4})
			if !bytes.Equal(f.Data, leF64(floats)) {
				t.Errorf("floats data mismatch")
			}
		})
	}
}

func TestLibChunked(t *testing.T) {
	// 7x5 with 3x2 chunks: 3x3 = 9 chunks, partial edge chunks on both axes.
	const R, C = 7, 5
	vals := make([]int32, R*C)
	for i := range vals {
		vals[i] = int32(i*7 - 50)
	}
	cases := []struct {
		name string
		opts []hdf5.DatasetOption
	}{
		{"plain", []hdf5.DatasetOption{hdf5.WithChunkDims([]uint64{3, 2})}},
		{"gzip-shuffle", []hdf5.DatasetOption{hdf5.WithChunkDims([]uint64{3, 2}), hdf5.WithShuffle(), hdf5.WithGZIPCompression(6)}},
		{"fletcher32", []hdf5.DatasetOption{hdf5.WithChunkDims([]uint64{3, 2}), hdf5.WithFletcher32()}},
		{"gzip", []hdf5.DatasetOption{hdf5.WithChunkDims([]uint64{3, 2}), hdf5.WithGZIPCompression(1)}},
	}
	for _, tc := range cases {
		t.Run(tc.name, func(t *testing.T) {
			r := writeFile(t, "chunked.h5", nil, func(fw *hdf5.FileWriter) {
				ds, err := fw.CreateDataset("/c", hdf5.Int32, []uint64{R, C}, tc.opts...)
				check(t, err)
				check(t, ds.Write(vals))
			})
			o := mustDataset(t, r, "/c", 0, 4, []uint64{R, C})
			if o.Layout != "chunked" {
				t.Fatalf("layout %q", o.Layout)
			}
			if !bytes.Equal(o.Data, leI32(vals)) {
				t.Errorf("data mismatch:\n got % x\nwant % x", o.Data, leI32(vals))
			}
			n := 0
			for _, e := range r.Extents {
				if e.Kind == "chunk" {
					n++
				}
			}
			if n != 9 {
				t.Errorf("found %d chunk extents, want 9", n)
			}
			if r.HasFinding("fletcher32-mismatch") {
				t.Errorf("fletcher32 mismatch reported")
			}
			t.Logf("chunk dims as stored %v, filters %+v", o.ChunkDims, o.Filters)
		})
	}
}

func TestLibChunked1D(t *testing.T) {
	vals := make([]float64, 25)
	for i := range vals {
		vals[i] = float64(i) * 0.5
	}
	r := writeFile(t, "c1.h5", nil, func(fw *hdf5.FileWriter) {
		ds, err := fw.CreateDataset("/v", hdf5.Float64, []uint64{25}, hdf5.WithChunkDims([]uint64{10}))
		check(t, err)
		check(t, ds.Write(vals))
	})
	o := mustDataset(t, r, "/v", 1, 8, []uint64{25})
	if !bytes.Equal(o.Data, leF64(vals)) {
		t.Errorf("data mismatch")
	}
}

func TestLibAttributes(t *testing.T) {
	for _, n := range []int{1, 3, 12} {
		t.Run(fmt.Sprintf("n%d", n), func(t *testing.T) {
			want := map[string][]byte{}
			r := writeFile(t, "attr.h5", nil, func(fw *hdf5.FileWriter) {
				ds, err := fw.CreateDataset("/d", hdf5.Int32, []uint64{2})
				check(t, err)
				check(t, ds.Write([]int32{7, 8}))
				for i := 0; i < n; i++ {
					name := fmt.Sprintf("attr_%02d", i)
					switch i % 3 {
					case 0:
						check(t, ds.WriteAttribute(name, int32(100+i)))
						want[name] = leI32([]int32{int32(100 + i)})
					case 1:
						v := []float64{float64(i), float64(i) + 0.5}
						check(t, ds.WriteAttribute(name, v))
						want[name] = leF64(v)
					case 2:
						check(t, ds.WriteAttribute(name, int32(-i)))
						want[name] = leI32([]int32{int32(-i)})
					}
				}
			})
			o := mustDataset(t, r, "/d", 0, 4, []uint64{2})
			if !bytes.Equal(o.Data, leI32([]int32{7, 8})) {
				t.Errorf("dataset data mismatch: % x", o.Data)
			}
			wantStorage := "compact"
			if n >= 8 {
				wantStorage = "dense"
			}
			if o.AttrStorage != wantStorage {
				t.Errorf("attribute storage %q want %q", o.AttrStorage, wantStorage)
			}
			got := map[string][]byte{}
			for _, a := range o.Attrs {
				got[a.Name] = a.Data
			}
			if len(got) != n {
				t.Errorf("decoded %d attributes, want %d: %v", len(got), n, got)
			}
			for name, w := range want {
				if !bytes.Equal(got[name], w) {
					t.Errorf("attribute %s: got % x want % x", name, got[name], w)
				}
			}
		})
	}
}

func TestLibStringAttr(t *testing.T) {
	r := writeFile(t, "sattr.h5", nil, func(fw *hdf5.FileWriter) {
		ds, err := fw.CreateDataset("/d", hdf5.Float64, []uint64{1})
		check(t, err)
		check(t, ds.Write([]float64{1}))
		check(t, ds.WriteAttribute("units", "Celsius"))
	})
	o := mustDataset(t, r, "/d", 1, 8, []uint64{1})
	if len(o.Attrs) != 1 || o.Attrs[0].Name != "units" {
		t.Fatalf("attrs %+v", o.Attrs)
	}
	a := o.Attrs[0]
	if a.Type.Class != 3 || !bytes.HasPrefix(a.Data, []byte("Celsius")) {
		t.Errorf("string attribute: class %d data %q", a.Type.Class, a.Data)
	}
}

func TestLibFixedString(t *testing.T) {
	r := writeFile(t, "str.h5", nil, func(fw *hdf5.FileWriter) {
		ds, err := fw.CreateDataset("/s", hdf5.String, []uint64{3}, hdf5.WithStringSize(8))
		check(t, err)
		check(t, ds.Write([]string{"ab", "cdefgh", ""}))
	})
	o := mustDataset(t, r, "/s", 3, 8, []uint64{3})
	want := append(append([]byte("ab\x00\x00\x00\x00\x00\x00"), []byte("cdefgh\x00\x00")...), make([]byte, 8)...)
	if !bytes.Equal(o.Data, want) {
		t.Errorf("string data %q want %q", o.Data, want)
	}
}

func TestLibVLenString(t *testing.T) {
	strs := []string{"short", "medium length string", "", "very long string with lots of text in it"}
	r := writeFile(t, "vlen.h5", nil, func(fw *hdf5.FileWriter) {
		ds, err := fw.CreateDataset("/strings", hdf5.VLenString, []uint64{uint64(len(strs))})
		check(t, err)
		check(t, ds.Write(strs))
	})
	o := mustDataset(t, r, "/strings", 9, 16, []uint64{uint64(len(strs))})
	if !o.Type.VLenString {
		t.Errorf("class-9 type is not flagged as string: bitfield %#x", o.Type.BitField)
	}
	if len(o.VLen) != len(strs) {
		t.Fatalf("VLen has %d elements", len(o.VLen))
	}
	for i, s := range strs {
		if string(o.VLen[i]) != s {
			t.Errorf("element %d: %q want %q", i, o.VLen[i], s)
		}
	}
	found := false
	for _, e := range r.Extents {
		if e.Kind == "gcol" {
			found = true
		}
	}
	if !found {
		t.Errorf("no gcol extent recorded")
	}
}

func TestLibGroupsAndLinks(t *testing.T) {
	for _, sv := range []uint8{0, 2} {
		t.Run(fmt.Sprintf("sb%d", sv), func(t *testing.T) {
			r := writeFile(t, "groups.h5", []interface{}{hdf5.WithSuperblockVersion(sv)}, func(fw *hdf5.FileWriter) {
				_, err := fw.CreateGroup("/g1")
				check(t, err)
				_, err = fw.CreateGroup("/g1/sub")
				check(t, err)
				ds, err := fw.CreateDataset("/g1/sub/data", hdf5.Int32, []uint64{3})
				check(t, err)
				check(t, ds.Write([]int32{10, 20, 30}))
				ds2, err := fw.CreateDataset("/top", hdf5.Int32, []uint64{1})
				check(t, err)
				check(t, ds2.Write([]int32{99}))
				check(t, fw.CreateHardLink("/alias", "/g1/sub/data"))
				check(t, fw.CreateSoftLink("/soft", "/g1/sub/data"))
				check(t, fw.CreateExternalLink("/ext", "other.h5", "/x/y"))
			})
			p := paths(r)
			for _, want := range []string{"/", "/g1", "/g1/sub", "/g1/sub/data", "/top", "/alias"} {
				if p[want] == nil {
					t.Errorf("path %s not found; have %v", want, keys(p))
				}
			}
			if p["/g1"] != nil && p["/g1"].Kind != "group" {
				t.Errorf("/g1 kind %q", p["/g1"].Kind)
			}
			d := mustDataset(t, r, "/g1/sub/data", 0, 4, []uint64{3})
			if !bytes.Equal(d.Data, leI32([]int32{10, 20, 30})) {
				t.Errorf("data mismatch")
			}
			if p["/alias"] != d {
				t.Errorf("hard link /alias does not resolve to /g1/sub/data")
			}
			if d.RefCount != 2 {
				t.Errorf("hard-linked dataset has reference count %d, want 2", d.RefCount)
			}
			// The library stores a soft / external link as a hard link to a
			// pseudo object whose header holds the real link message, so the
			// specification-level view is <name>/<name>. Accept both shapes.
			var soft, ext *Link
			r.Walk(func(path string, o *Object, l *Link) {
				if l == nil || l.Kind == "hard" {
					return
				}
				if path == "/soft" || path == "/soft/soft" {
					soft = l
				}
				if path == "/ext" || path == "/ext/ext" {
					ext = l
				}
			})
			if soft == nil || soft.Kind != "soft" || soft.Target != "/g1/sub/data" {
				t.Errorf("soft link: %+v", soft)
			}
			if ext == nil || ext.Kind != "external" || ext.File != "other.h5" || ext.Target != "/x/y" {
				t.Errorf("external link: %+v", ext)
			}
		})
	}
}

func TestLibManyDatasets(t *testing.T) {
	// Enough links in the root group to need more than one symbol table node.
	const N = 30
	r := writeFile(t, "many.h5", nil, func(fw *hdf5.FileWriter) {
		for i := 0; i < N; i++ {
			ds, err := fw.CreateDataset(fmt.Sprintf("/ds_%03d", i), hdf5.Int32, []uint64{2})
			check(t, err)
			check(t, ds.Write([]int32{int32(i), int32(-i)}))
		}
	})
	p := paths(r)
	for i := 0; i < N; i++ {
		name := fmt.Sprintf("/ds_%03d", i)
		o := p[name]
		if o == nil {
			t.Errorf("%s missing", name)
			continue
		}
		if !bytes.Equal(o.Data, leI32([]int32{int32(i), int32(-i)})) {
			t.Errorf("%s data mismatch: % x (err %q)", name, o.Data, o.DataErr)
		}
	}
}

func TestLibDenseGroup(t *testing.T) {
	r := writeFile(t, "dense.h5", nil, func(fw *hdf5.FileWriter) {
		links := map[string]string{}
		for i := 0; i < 20; i++ {
			name := fmt.Sprintf("/t%02d", i)
			ds, err := fw.CreateDataset(name, hdf5.Int32, []uint64{1})
			check(t, err)
			check(t, ds.Write([]int32{int32(i)}))
			links[fmt.Sprintf("link%02d", i)] = name
		}
		if err := fw.CreateDenseGroup("/dense", links); err != nil {
			t.Skipf("CreateDenseGroup: %v", err)
		}
	})
	p := paths(r)
	g := p["/dense"]
	if g == nil {
		t.Fatalf("/dense not found: %v", keys(p))
	}
	if g.LinkStorage != "dense" {
		t.Errorf("link storage %q", g.LinkStorage)
	}
	for i := 0; i < 20; i++ {
		o := p[fmt.Sprintf("/dense/link%02d", i)]
		if o == nil {
			t.Errorf("/dense/link%02d missing", i)
			continue
		}
		if !bytes.Equal(o.Data, leI32([]int32{int32(i)})) {
			t.Errorf("/dense/link%02d resolves to wrong data % x", i, o.Data)
		}
	}
}

func TestLibDatatypes(t *testing.T) {
	opaque := make([]byte, 3*16)
	for i := range opaque {
		opaque[i] = byte(i * 3)
	}
	r := writeFile(t, "types.h5", nil, func(fw *hdf5.FileWriter) {
		mk := func(name string, dt hdf5.Datatype, dims []uint64, data interface{}, opts ...hdf5.DatasetOption) {
			ds, err := fw.CreateDataset(name, dt, dims, opts...)
			if err != nil {
				t.Fatalf("%s: CreateDataset: %v", name, err)
			}
			if err := ds.Write(data); err != nil {
				t.Fatalf("%s: Write: %v", name, err)
			}
		}
		mk("/i8", hdf5.Int8, []uint64{3}, []int8{-1, 2, -3})
		mk("/i16", hdf5.Int16, []uint64{2}, []int16{-300, 300})
		mk("/i64", hdf5.Int64, []uint64{2}, []int64{-1 << 40, 1 << 40})
		mk("/u8", hdf5.Uint8, []uint64{4}, []uint8{1, 2, 3, 255})
		mk("/u16", hdf5.Uint16, []uint64{1}, []uint16{65535})
		mk("/u32", hdf5.Uint32, []uint64{1}, []uint32{4000000000})
		mk("/u64", hdf5.Uint64, []uint64{1}, []uint64{1 << 63})
		mk("/f32", hdf5.Float32, []uint64{2}, []float32{1.5, -2.5})
		mk("/arr", hdf5.ArrayInt32, []uint64{2}, []int32{1, 2, 3, 4, 5, 6}, hdf5.WithArrayDims([]uint64{3}))
		mk("/enum", hdf5.EnumInt8, []uint64{4}, []int8{0, 1, 2, 1},
			hdf5.WithEnumValues([]string{"Red", "Green", "Blue"}, []int64{0, 1, 2}))
		mk("/ref", hdf5.ObjectReference, []uint64{2}, []uint64{48, 96})
		mk("/opq", hdf5.Opaque, []uint64{3}, opaque, hdf5.WithOpaqueTag("Binary blob", 16))
		mk("/vli", hdf5.VLenInt32, []uint64{3}, [][]int32{{1, 2}, {3, 4, 5}, {6}})
	})
	eq := func(path string, class int, size uint32, dims []uint64, want []byte) *Object {
		t.Helper()
		o := mustDataset(t, r, path, class, size, dims)
		if want != nil && !bytes.Equal(o.Data, want) {
			t.Errorf("%s: data % x want % x", path, o.Data, want)
		}
		return o
	}
	eq("/i8", 0, 1, []uint64{3}, []byte{0xff, 2, 0xfd})
	eq("/i16", 0, 2, []uint64{2}, []byte{0xd4, 0xfe, 0x2c, 0x01})
	eq("/i64", 0, 8, []uint64{2}, nil)
	if o := eq("/u8", 0, 1, []uint64{4}, []byte{1, 2, 3, 255}); o.Type.Signed {
		t.Errorf("/u8 decoded as signed")
	}
	eq("/u16", 0, 2, []uint64{1}, []byte{0xff, 0xff})
	eq("/u32", 0, 4, []uint64{1}, []byte{0x00, 0x28, 0x6b, 0xee})
	eq("/u64", 0, 8, []uint64{1}, []byte{0, 0, 0, 0, 0, 0, 0, 0x80})
	eq("/f32", 1, 4, []uint64{2}, []byte{0, 0, 0xc0, 0x3f, 0, 0, 0x20, 0xc0})
	a := eq("/arr", 10, 12, []uint64{2}, leI32([]int32{1, 2, 3, 4, 5, 6}))
	if a.Type.Base == nil || a.Type.Base.Class != 0 || fmt.Sprint(a.Type.ArrayDims) != "[3]" {
		t.Errorf("/arr: type %+v", a.Type)
	}
	e := eq("/enum", 8, 1, []uint64{4}, []byte{0, 1, 2, 1})
	if fmt.Sprint(e.Type.EnumNames) != "[Red Green Blue]" || len(e.Type.EnumValues) != 3 || e.Type.EnumValues[2][0] != 2 {
		t.Errorf("/enum: names %v values %v", e.Type.EnumNames, e.Type.EnumValues)
	}
	eq("/ref", 7, 8, []uint64{2}, []byte{48, 0, 0, 0, 0, 0, 0, 0, 96, 0, 0, 0, 0, 0, 0, 0})
	op := eq("/opq", 5, 16, []uint64{3}, opaque)
	if op.Type.OpaqueTag != "Binary blob" {
		t.Errorf("/opq tag %q", op.Type.OpaqueTag)
	}
	v := mustDataset(t, r, "/vli", 9, 16, []uint64{3})
	want := [][]int32{{1, 2}, {3, 4, 5}, {6}}
	if len(v.VLen) != 3 {
		t.Fatalf("/vli: %d elements", len(v.VLen))
	}
	for i := range want {
		if !bytes.Equal(v.VLen[i], leI32(want[i])) {
			t.Errorf("/vli[%d] = % x", i, v.VLen[i])
		}
	}
}

func TestLibManyChunks(t *testing.T) {
	// 500 chunks: more than the 2K=64 entries one chunk B-tree node may hold.
	const N = 1000
	vals := make([]int32, N)
	for i := range vals {
		vals[i] = int32(i * 3)
	}
	r := writeFile(t, "manychunks.h5", nil, func(fw *hdf5.FileWriter) {
		ds, err := fw.CreateDataset("/c", hdf5.Int32, []uint64{N}, hdf5.WithChunkDims([]uint64{2}))
		check(t, err)
		check(t, ds.Write(vals))
	})
	o := mustDataset(t, r, "/c", 0, 4, []uint64{N})
	if !bytes.Equal(o.Data, leI32(vals)) {
		t.Errorf("data mismatch")
	}
	n := 0
	for _, e := range r.Extents {
		if e.Kind == "chunk" {
			n++
		}
	}
	if n != N/2 {
		t.Errorf("%d chunk extents, want %d", n, N/2)
	}
}

func TestLibManyDenseAttrs(t *testing.T) {
	const N = 350
	r := writeFile(t, "manyattrs.h5", nil, func(fw *hdf5.FileWriter) {
		ds, err := fw.CreateDataset("/d", hdf5.Int32, []uint64{1})
		check(t, err)
		check(t, ds.Write([]int32{1}))
		for i := 0; i < N; i++ {
			if err := ds.WriteAttribute(fmt.Sprintf("attribute_number_%04d", i), []float64{float64(i), 1, 2, 3}); err != nil {
				t.Fatalf("attribute %d: %v", i, err)
			}
		}
	})
	o := mustDataset(t, r, "/d", 0, 4, []uint64{1})
	got := map[string][]byte{}
	for _, a := range o.Attrs {
		got[a.Name] = a.Data
	}
	if len(got) != N {
		t.Errorf("decoded %d distinct attributes, want %d", len(got), N)
	}
	for i := 0; i < N; i++ {
		name := fmt.Sprintf("attribute_number_%04d", i)
		if !bytes.Equal(got[name], leF64([]float64{float64(i), 1, 2, 3})) {
			t.Errorf("%s: % x", name, got[name])
			break
		}
	}
	kinds := map[string]int{}
	for _, e := range r.Extents {
		kinds[e.Kind]++
	}
	t.Logf("extent kinds: %v", kinds)
}

func TestLibGroupAttributes(t *testing.T) {
	r := writeFile(t, "gattr.h5", nil, func(fw *hdf5.FileWriter) {
		g, err := fw.CreateGroup("/g")
		check(t, err)
		check(t, g.WriteAttribute("version", int32(3)))
		check(t, g.WriteAttribute("scale", float64(2.5)))
	})
	g := paths(r)["/g"]
	if g == nil || g.Kind != "group" {
		t.Fatalf("/g: %+v", g)
	}
	got := map[string][]byte{}
	for _, a := range g.Attrs {
		got[a.Name] = a.Data
	}
	if !bytes.Equal(got["version"], leI32([]int32{3})) || !bytes.Equal(got["scale"], leF64([]float64{2.5})) {
		t.Errorf("group attributes: %v", got)
	}
}

func TestLibV0Chunked(t *testing.T) {
	vals := make([]float64, 6*4)
	for i := range vals {
		vals[i] = float64(i) / 4
	}
	r := writeFile(t, "v0chunk.h5", []interface{}{hdf5.WithSuperblockVersion(0)}, func(fw *hdf5.FileWriter) {
		ds, err := fw.CreateDataset("/c", hdf5.Float64, []uint64{6, 4}, hdf5.WithChunkDims([]uint64{4, 3}), hdf5.WithGZIPCompression(5))
		check(t, err)
		check(t, ds.Write(vals))
		check(t, ds.WriteAttribute("a", int32(5)))
	})
	o := mustDataset(t, r, "/c", 1, 8, []uint64{6, 4})
	if !bytes.Equal(o.Data, leF64(vals)) {
		t.Errorf("data mismatch")
	}
	if len(o.Attrs) != 1 || o.Attrs[0].Name != "a" {
		t.Errorf("attrs %+v", o.Attrs)
	}
}

func TestLibResize(t *testing.T) {
	vals := []int32{1, 2, 3, 4, 5, 6}
	r := writeFile(t, "resize.h5", nil, func(fw *hdf5.FileWriter) {
		ds, err := fw.CreateDataset("/r", hdf5.Int32, []uint64{6}, hdf5.WithChunkDims([]uint64{4}), hdf5.WithMaxDims([]uint64{hdf5.Unlimited}))
		if err != nil {
			t.Skipf("CreateDataset with max dims: %v", err)
		}
		check(t, ds.Write(vals))
		if err := ds.Resize([]uint64{10}); err != nil {
			t.Logf("Resize: %v", err)
		}
	})
	o := paths(r)["/r"]
	if o == nil {
		t.Fatalf("/r missing")
	}
	t.Logf("dims %v maxdims %v dataErr %q data % x", o.Dims, o.MaxDims, o.DataErr, o.Data)
	if len(o.MaxDims) != 1 || o.MaxDims[0] != ^uint64(0) {
		t.Errorf("max dims %v, want unlimited", o.MaxDims)
	}
	if o.DataErr == "" && !bytes.HasPrefix(o.Data, leI32(vals)) {
		t.Errorf("data does not start with the written values")
	}
}

// libSeedImages returns a few library-written images used as mutation seeds.
func libSeedImages(t *testing.T) [][]byte {
	t.Helper()
	dir := t.TempDir()
	var out [][]byte
	mk := func(name string, opts []interface{}, build func(fw *hdf5.FileWriter)) {
		path := filepath.Join(dir, name)
		fw, err := hdf5.CreateForWrite(path, hdf5.CreateTruncate, opts...)
		if err != nil {
			t.Fatal(err)
		}
		build(fw)
		if err := fw.Close(); err != nil {
			t.Fatal(err)
		}
		b, err := os.ReadFile(path)
		if err != nil {
			t.Fatal(err)
		}
		out = append(out, b)
	}
	mk("a.h5", nil, func(fw *hdf5.FileWriter) {
		ds, err := fw.CreateDataset("/c", hdf5.Int32, []uint64{7, 5}, hdf5.WithChunkDims([]uint64{3, 2}), hdf5.WithShuffle(), hdf5.WithGZIPCompression(6), hdf5.WithFletcher32())
		check(t, err)
		check(t, ds.Write(make([]int32, 35)))
		for i := 0; i < 10; i++ {
			check(t, ds.WriteAttribute(fmt.Sprintf("a%d", i), int32(i)))
		}
	})
	mk("b.h5", []interface{}{hdf5.WithSuperblockVersion(0)}, func(fw *hdf5.FileWriter) {
		_, err := fw.CreateGroup("/g")
		check(t, err)
		ds, err := fw.CreateDataset("/g/s", hdf5.VLenString, []uint64{2})
		check(t, err)
		check(t, ds.Write([]string{"x", "yy"}))
		check(t, fw.CreateSoftLink("/soft", "/g/s"))
	})
	return out
}

// TestLibAttributeOnOlderObject documents (without asserting) what the decoder sees
// when an attribute is added to an object that is not the most recently created
// one — a known defect of the library: the grown header overwrites its neighbour.
func TestLibAttributeOnOlderObject(t *testing.T) {
	r := writeFile(t, "older.h5", nil, func(fw *hdf5.FileWriter) {
		d1, err := fw.CreateDataset("/first", hdf5.Int32, []uint64{2})
		check(t, err)
		check(t, d1.Write([]int32{1, 2}))
		d2, err := fw.CreateDataset("/second", hdf5.Int32, []uint64{2})
		check(t, err)
		check(t, d2.Write([]int32{3, 4}))
		for i := 0; i < 4; i++ {
			if err := d1.WriteAttribute(fmt.Sprintf("attr%d", i), int32(i)); err != nil {
				t.Logf("WriteAttribute %d: %v", i, err)
			}
		}
	})
	p := paths(r)
	for _, name := range []string{"/first", "/second"} {
		if o := p[name]; o != nil {
			t.Logf("%s: kind=%s msgs=%#x attrs=%d data=% x err=%q", name, o.Kind, o.MsgTypes, len(o.Attrs), o.Data, o.DataErr)
		} else {
			t.Logf("%s: not reachable", name)
		}
	}
	t.Logf("finding classes: %v", r.FindingClasses())
}
