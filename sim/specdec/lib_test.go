package specdec

// Tests that decode files produced by the library under test through its public API.

import (
	"bytes"
	"encoding/binary"
	"fmt"
	"math"
	"os"
	"path/filepath"
	"testing"

	hdf5 "github.com/scigolib/hdf5"
)

func leI32(v []int32) []byte {
	b := make([]byte, 4*len(v))
	for i, x := range v {
		binary.LittleEndian.PutUint32(b[4*i:], uint32(x))
	}
	return b
}

func leF64(v []float64) []byte {
	b := make([]byte, 8*len(v))
	for i, x := range v {
		binary.LittleEndian.PutUint64(b[8*i:], math.Float64bits(x))
	}
	return b
}

// writeFile creates a file, lets build populate it, closes it and decodes it.
func writeFile(t *testing.T, name string, opts []interface{}, build func(fw *hdf5.FileWriter)) *Result {
	t.Helper()
	path := filepath.Join(t.TempDir(), name)
	fw, err := hdf5.CreateForWrite(path, hdf5.CreateTruncate, opts...)
	if err != nil {
		t.Fatalf("CreateForWrite: %v", err)
	}
	build(fw)
	if err := fw.Close(); err != nil {
		t.Fatalf("Close: %v", err)
	}
	b, err := os.ReadFile(path)
	if err != nil {
		t.Fatal(err)
	}
	r := Decode(b)
	if r.HasFinding("decoder-panic") {
		t.Fatalf("decoder panic: %+v", r.Findings)
	}
	logFindings(t, name, r)
	return r
}

func logFindings(t *testing.T, name string, r *Result) {
	t.Helper()
	seen := map[string]int{}
	for _, f := range r.Findings {
		seen[f.Class]++
		if seen[f.Class] <= 2 {
			t.Logf("%s: finding %s @%#x: %s", name, f.Class, f.Addr, f.Detail)
		}
	}
	for _, l := range r.Limitations {
		t.Logf("%s: limitation: %s", name, l)
	}
}

func paths(r *Result) map[string]*Object {
	m := map[string]*Object{}
	r.Walk(func(p string, o *Object, l *Link) {
		if o != nil {
			m[p] = o
		}
	})
	return m
}

func mustDataset(t *testing.T, r *Result, path string, class int, size uint32, dims []uint64) *Object {
	t.Helper()
	o := paths(r)[path]
	if o == nil {
		t.Fatalf("%s not found by Walk; have %v", path, keys(paths(r)))
	}
	if o.Kind != "dataset" {
		t.Fatalf("%s: kind %q", path, o.Kind)
	}
	if o.Type == nil || o.Type.Class != class || o.Type.Size != size {
		t.Fatalf("%s: type %+v, want class %d size %d", path, o.Type, class, size)
	}
	if fmt.Sprint(o.Dims) != fmt.Sprint(dims) {
		t.Fatalf("%s: dims %v want %v", path, o.Dims, dims)
	}
	if o.DataErr != "" {
		t.Fatalf("%s: DataErr %q", path, o.DataErr)
	}
	return o
}

func keys(m map[string]*Object) []string {
	var k []string
	for s := range m {
		k = append(k, s)
	}
	return k
}

func check(t *testing.T, err error) {
	t.Helper()
	if err != nil {
		t.Fatal(err)
	}
}

func TestLibContiguous(t *testing.T) {
	for _, sv := range []uint8{0, 2, 3} {
		t.Run(fmt.Sprintf("sb%d", sv), func(t *testing.T) {
			ints := []int32{1, -2, 3, -4, 5, 6, 7, 8, 9, 10, 11, 12}
			floats := []float64{1.5, -2.25, 3e10, 4}
			r := writeFile(t, "contig.h5", []interface{}{hdf5.WithSuperblockVersion(sv)}, func(fw *hdf5.FileWriter) {
				ds, err := fw.CreateDataset("/ints", hdf5.Int32, []uint64{3, 4})
				check(t, err)
				check(t, ds.Write(ints))
				ds2, err := fw.CreateDataset("/floats", hdf5.Float64, []uint64{4})
				check(t, err)
				check(t, ds2.Write(floats))
			})
			if r.SuperblockVersion != int(sv) {
				t.Errorf("superblock version %d want %d", r.SuperblockVersion, sv)
			}
			o := mustDataset(t, r, "/ints", 0, 4, []uint64{3, 4})
			if !o.Type.Signed || o.Type.BigEndian {
				t.Errorf("int32 type flags: %+v", o.Type)
			}
			if o.Layout != "contiguous" {
				t.Errorf("layout %q", o.Layout)
			}
			if !bytes.Equal(o.Data, leI32(ints)) {
				t.Errorf("ints data mismatch: % x", o.Data)
			}
			f := mustDataset(t, r, "/floats", 1, 8, []uint64{4})
			if !bytes.Equal(f.Data, leF64(floats)) {
				t.Errorf("floats data mismatch")
			}
		})
	}
}

func TestLibChunked(t *testing.T) {
	// 7x5 with 3x2 chunks: 3x3 = 9 chunks, partial edge chunks on both axes.
	const R, C = 7, 5
	vals := make([]int32, R*C)
	for i := range vals {
		vals[i] = int32(i*7 - 50)
	}
	cases := []struct {
		name string
		opts []hdf5.DatasetOption
	}{
		{"plain", []hdf5.DatasetOption{hdf5.WithChunkDims([]uint64{3, 2})}},
		{"gzip-shuffle", []hdf5.DatasetOption{hdf5.WithChunkDims([]uint64{3, 2}), hdf5.WithShuffle(), hdf5.WithGZIPCompression(6)}},
		{"fletcher32", []hdf5.DatasetOption{hdf5.WithChunkDims([]uint64{3, 2}), hdf5.WithFletcher32()}},
		{"gzip", []hdf5.DatasetOption{hdf5.WithChunkDims([]uint64{3, 2}), hdf5.WithGZIPCompression(1)}},
	}
	for _, tc := range cases {
		t.Run(tc.name, func(t *testing.T) {
			r := writeFile(t, "chunked.h5", nil, func(fw *hdf5.FileWriter) {
				ds, err := fw.CreateDataset("/c", hdf5.Int32, []uint64{R, C}, tc.opts...)
				check(t, err)
				check(t, ds.Write(vals))
			})
			o := mustDataset(t, r, "/c", 0, 4, []uint64{R, C})
			if o.Layout != "chunked" {
				t.Fatalf("layout %q", o.Layout)
			}
			if !bytes.Equal(o.Data, leI32(vals)) {
				t.Errorf("data mismatch:\n got % x\nwant % x", o.Data, leI32(vals))
			}
			n := 0
			for _, e := range r.Extents {
				if e.Kind == "chunk" {
					n++
				}
			}
			if n != 9 {
				t.Errorf("found %d chunk extents, want 9", n)
			}
			if r.HasFinding("fletcher32-mismatch") {
				t.Errorf("fletcher32 mismatch reported")
			}
			t.Logf("chunk dims as stored %v, filters %+v", o.ChunkDims, o.Filters)
		})
	}
}

func TestLibChunked1D(t *testing.T) {
	vals := make([]float64, 25)
	for i := range vals {
		vals[i] = float64(i) * 0.5
	}
	r := writeFile(t, "c1.h5", nil, func(fw *hdf5.FileWriter) {
		ds, err := fw.CreateDataset("/v", hdf5.Float64, []uint64{25}, hdf5.WithChunkDims([]uint64{10}))
		check(t, err)
		check(t, ds.Write(vals))
	})
	o := mustDataset(t, r, "/v", 1, 8, []uint64{25})
	if !bytes.Equal(o.Data, leF64(vals)) {
		t.Errorf("data mismatch")
	}
}

func TestLibAttributes(t *testing.T) {
	for _, n := range []int{1, 3, 12} {
		t.Run(fmt.Sprintf("n%d", n), func(t *testing.T) {
			want := map[string][]byte{}
			r := writeFile(t, "attr.h5", nil, func(fw *hdf5.FileWriter) {
				ds, err := fw.CreateDataset("/d", hdf5.Int32, []uint64{2})
				check(t, err)
				check(t, ds.Write([]int32{7, 8}))
				for i := 0; i < n; i++ {
					name := fmt.Sprintf("attr_%02d", i)
					switch i % 3 {
					case 0:
						check(t, ds.WriteAttribute(name, int32(100+i)))
						want[name] = leI32([]int32{int32(100 + i)})
					case 1:
						v := []float64{float64(i), float64(i) + 0.5}
						check(t, ds.WriteAttribute(name, v))
						want[name] = leF64(v)
					case 2:
						check(t, ds.WriteAttribute(name, int32(-i)))
						want[name] = leI32([]int32{int32(-i)})
					}
				}
			})
			o := mustDataset(t, r, "/d", 0, 4, []uint64{2})
			if !bytes.Equal(o.Data, leI32([]int32{7, 8})) {
				t.Errorf("dataset data mismatch: % x", o.Data)
			}
			wantStorage := "compact"
			if n >= 8 {
				wantStorage = "dense"
			}
			if o.AttrStorage != wantStorage {
				t.Errorf("attribute storage %q want %q", o.AttrStorage, wantStorage)
			}
			got := map[string][]byte{}
			for _, a := range o.Attrs {
				got[a.Name] = a.Data
			}
			if len(got) != n {
				t.Errorf("decoded %d attributes, want %d: %v", len(got), n, got)
			}
			for name, w := range want {
				if !bytes.Equal(got[name], w) {
					t.Errorf("attribute %s: got % x want % x", name, got[name], w)
				}
			}
		})
	}
}

func TestLibStringAttr(t *testing.T) {
	r := writeFile(t, "sattr.h5", nil, func(fw *hdf5.FileWriter) {
		ds, err := fw.CreateDataset("/d", hdf5.Float64, []uint64{1})
		check(t, err)
		check(t, ds.Write([]float64{1}))
		check(t, ds.WriteAttribute("units", "Celsius"))
	})
	o := mustDataset(t, r, "/d", 1, 8, []uint64{1})
	if len(o.Attrs) != 1 || o.Attrs[0].Name != "units" {
		t.Fatalf("attrs %+v", o.Attrs)
	}
	a := o.Attrs[0]
	if a.Type.Class != 3 || !bytes.HasPrefix(a.Data, []byte("Celsius")) {
		t.Errorf("string attribute: class %d data %q", a.Type.Class, a.Data)
	}
}

func TestLibFixedString(t *testing.T) {
	r := writeFile(t, "str.h5", nil, func(fw *hdf5.FileWriter) {
		ds, err := fw.CreateDataset("/s", hdf5.String, []uint64{3}, hdf5.WithStringSize(8))
		check(t, err)
		check(t, ds.Write([]string{"ab", "cdefgh", ""}))
	})
	o := mustDataset(t, r, "/s", 3, 8, []uint64{3})
	want := append(append([]byte("ab\x00\x00\x00\x00\x00\x00"), []byte("cdefgh\x00\x00")...), make([]byte, 8)...)
	if !bytes.Equal(o.Data, want) {
		t.Errorf("string data %q want %q", o.Data, want)
	}
}

func TestLibVLenString(t *testing.T) {
	strs := []string{"short", "medium length string", "", "very long string with lots of text in it"}
	r := writeFile(t, "vlen.h5", nil, func(fw *hdf5.FileWriter) {
		ds, err := fw.CreateDataset("/strings", hdf5.VLenString, []uint64{uint64(len(strs))})
		check(t, err)
		check(t, ds.Write(strs))
	})
	o := mustDataset(t, r, "/strings", 9, 16, []uint64{uint64(len(strs))})
	if !o.Type.VLenString {
		t.Errorf("class-9 type is not flagged as string: bitfield %#x", o.Type.BitField)
	}
	if len(o.VLen) != len(strs) {
		t.Fatalf("VLen has %d elements", len(o.VLen))
	}
	for i, s := range strs {
		if string(o.VLen[i]) != s {
			t.Errorf("element %d: %q want %q", i, o.VLen[i], s)
		}
	}
	found := false
	for _, e := range r.Extents {
		if e.Kind == "gcol" {
			found = true
		}
	}
	if !found {
		t.Errorf("no gcol extent recorded")
	}
}

func TestLibGroupsAndLinks(t *testing.T) {
	for _, sv := range []uint8{0, 2} {
		t.Run(fmt.Sprintf("sb%d", sv), func(t *testing.T) {
			r := writeFile(t, "groups.h5", []interface{}{hdf5.WithSuperblockVersion(sv)}, func(fw *hdf5.FileWriter) {
				_, err := fw.CreateGroup("/g1")
				check(t, err)
				_, err = fw.CreateGroup("/g1/sub")
				check(t, err)
				ds, err := fw.CreateDataset("/g1/sub/data", hdf5.Int32, []uint64{3})
				check(t, err)
				check(t, ds.Write([]int32{10, 20, 30}))
				ds2, err := fw.CreateDataset("/top", hdf5.Int32, []uint64{1})
				check(t, err)
				check(t, ds2.Write([]int32{99}))
				check(t, fw.CreateHardLink("/alias", "/g1/sub/data"))
				check(t, fw.CreateSoftLink("/soft", "/g1/sub/data"))
				check(t, fw.CreateExternalLink("/ext", "other.h5", "/x/y"))
			})
			p := paths(r)
			for _, want := range []string{"/", "/g1", "/g1/sub", "/g1/sub/data", "/top", "/alias"} {
				if p[want] == nil {
					t.Errorf("path %s not found; have %v", want, keys(p))
				}
			}
			if p["/g1"] != nil && p["/g1"].Kind != "group" {
				t.Errorf("/g1 kind %q", p["/g1"].Kind)
			}
			d := mustDataset(t, r, "/g1/sub/data", 0, 4, []uint64{3})
			if !bytes.Equal(d.Data, leI32([]int32{10, 20, 30})) {
				t.Errorf("data mismatch")
			}
			if p["/alias"] != d {
				t.Errorf("hard link /alias does not resolve to /g1/sub/data")
			}
			if d.RefCount != 2 {
				t.Errorf("hard-linked dataset has reference count %d, want 2", d.RefCount)
			}
			// The library stores a soft / external link as a hard link to a
			// pseudo object whose header holds the real link message, so the
			// specification-level view is <name>/<name>. Accept both shapes.
			var soft, ext *Link
			r.Walk(func(path string, o *Object, l *Link) {
				if l == nil || l.Kind == "hard" {
					return
				}
				if path == "/soft" || path == "/soft/soft" {
					soft = l
				}
				if path == "/ext" || path == "/ext/ext" {
					ext = l
				}
			})
			if soft == nil || soft.Kind != "soft" || soft.Target != "/g1/sub/data" {
				t.Errorf("soft link: %+v", soft)
			}
			if ext == nil || ext.Kind != "external" || ext.File != "other.h5" || ext.Target != "/x/y" {
				t.Errorf("external link: %+v", ext)
			}
		})
	}
}

func TestLibManyDatasets(t *testing.T) {
	// Enough links in the root group to need more than one symbol table node.
	const N = 30
	r := writeFile(t, "many.h5", nil, func(fw *hdf5.FileWriter) {
		for i := 0; i < N; i++ {
			ds, err := fw.CreateDataset(fmt.Sprintf("/ds_%03d", i), hdf5.Int32, []uint64{2})
			check(t, err)
			check(t, ds.Write([]int32{int32(i), int32(-i)}))
		}
	})
	p := paths(r)
	for i := 0; i < N; i++ {
		name := fmt.Sprintf("/ds_%03d", i)
		o := p[name]
		if o == nil {
			t.Errorf("%s missing", name)
			continue
		}
		if !bytes.Equal(o.Data, leI32([]int32{int32(i), int32(-i)})) {
			t.Errorf("%s data mismatch: % x (err %q)", name, o.Data, o.DataErr)
		}
	}
}

func TestLibDenseGroup(t *testing.T) {
	r := writeFile(t, "dense.h5", nil, func(fw *hdf5.FileWriter) {
		links := map[string]string{}
		for i := 0; i < 20; i++ {
			name := fmt.Sprintf("/t%02d", i)
			ds, err := fw.CreateDataset(name, hdf5.Int32, []uint64{1})
			check(t, err)
			check(t, ds.Write([]int32{int32(i)}))
			links[fmt.Sprintf("link%02d", i)] = name
		}
		if err := fw.CreateDenseGroup("/dense", links); err != nil {
			t.Skipf("CreateDenseGroup: %v", err)
		}
	})
	p := paths(r)
	g := p["/dense"]
	if g == nil {
		t.Fatalf("/dense not found: %v", keys(p))
	}
	if g.LinkStorage != "dense" {
		t.Errorf("link storage %q", g.LinkStorage)
	}
	for i := 0; i < 20; i++ {
		o := p[fmt.Sprintf("/dense/link%02d", i)]
		if o == nil {
			t.Errorf("/dense/link%02d missing", i)
			continue
		}
		if !bytes.Equal(o.Data, leI32([]int32{int32(i)})) {
			t.Errorf("/dense/link%02d resolves to wrong data % x", i, o.Data)
		}
	}
}
