package specdec

import (
	"bytes"
	"fmt"
	"hash/crc32"
)

var sbSignature = []byte{0x89, 'H', 'D', 'F', '\r', '\n', 0x1a, '\n'}

// HDF5 header message type numbers (specification section IV.A.2).
const (
	msgNil          = 0x0000
	msgDataspace    = 0x0001
	msgLinkInfo     = 0x0002
	msgDatatype     = 0x0003
	msgFillOld      = 0x0004
	msgFill         = 0x0005
	msgLink         = 0x0006
	msgExternal     = 0x0007
	msgLayout       = 0x0008
	msgBogus        = 0x0009
	msgGroupInfo    = 0x000A
	msgFilters      = 0x000B
	msgAttribute    = 0x000C
	msgComment      = 0x000D
	msgModTimeOld   = 0x000E
	msgSharedTable  = 0x000F
	msgContinuation = 0x0010
	msgSymbolTable  = 0x0011
	msgModTime      = 0x0012
	msgBtreeK       = 0x0013
	msgDriverInfo   = 0x0014
	msgAttrInfo     = 0x0015
	msgRefCount     = 0x0016
	msgFileSpace    = 0x0017
	msgMDCImage     = 0x0018
)

// decoder carries the state of one Decode call.
type decoder struct {
	f   []byte
	res *Result

	O, L  int    // size of offsets / size of lengths
	base  uint64 // base address added to every stored address
	undef uint64 // the "undefined address" value for O-byte addresses

	groupLeafK, groupIntK, istoreK int

	headers map[uint64]*header // parsed object headers by absolute address
	gcols   map[uint64]*gcol   // parsed global heap collections
	lheaps  map[uint64]*localHeap
	fheaps  map[uint64]*fractalHeap
	queue   []uint64 // object headers still to decode
	// extentSeen prevents recording the extent of a structure twice when it is
	// reachable along several routes (shared heaps, hard links).
	extentSeen map[uint64]bool
}

// rawMsg is one header message as found in an object header chunk.
type rawMsg struct {
	typ   uint16
	flags uint8
	data  []byte
	off   uint64 // absolute file offset of data
}

// header is a parsed object header (all chunks).
type header struct {
	version  int
	refcount uint32
	hflags   uint8
	msgs     []rawMsg
	ok       bool
}

func (d *decoder) finding(class string, addr uint64, format string, args ...any) {
	d.res.addFinding(class, addr, format, args...)
}

// trial runs fn; when fn reports failure every finding and limitation it
// recorded is discarded. Used to test an alternative reading of ambiguous bytes.
func (d *decoder) trial(fn func() bool) bool {
	nf, nl := len(d.res.Findings), len(d.res.Limitations)
	if fn() {
		return true
	}
	d.res.Findings = d.res.Findings[:nf]
	for _, l := range d.res.Limitations[nl:] {
		delete(d.res.limSeen, l)
	}
	d.res.Limitations = d.res.Limitations[:nl]
	return false
}

// checksumNote describes a metadata checksum mismatch; it recognises the common
// mistake of storing CRC-32 instead of Jenkins lookup3.
func checksumNote(covered []byte, stored, computed uint32) string {
	s := fmt.Sprintf("stored %#08x computed %#08x", stored, computed)
	if crc32.ChecksumIEEE(covered) == stored {
		s += " (stored value is the CRC-32/IEEE of the covered bytes: wrong algorithm)"
	}
	return s
}

func (d *decoder) extent(start, size uint64, kind, owner string) {
	end, ok := addOK(start, size)
	if !ok {
		end = ^uint64(0)
	}
	d.res.Extents = append(d.res.Extents, Extent{Start: start, End: end, Kind: kind, Owner: owner})
}

// slice returns file[abs:abs+n] or nil when the range is not inside the file.
func (d *decoder) slice(abs, n uint64) []byte {
	end, ok := addOK(abs, n)
	if !ok || end > uint64(len(d.f)) {
		return nil
	}
	return d.f[abs:end]
}

// tail returns file[abs:] (possibly empty), or nil when abs is past the end.
func (d *decoder) tail(abs uint64) []byte {
	if abs > uint64(len(d.f)) {
		return nil
	}
	return d.f[abs:]
}

// addr reads an O-byte address and converts it to an absolute file offset.
// defined is false for the undefined address.
func (d *decoder) addr(c *cur) (abs uint64, defined bool) {
	v := c.uN(d.O)
	if c.bad || v == d.undef {
		return 0, false
	}
	a, ok := addOK(v, d.base)
	if !ok {
		return 0, false
	}
	return a, true
}

func (d *decoder) length(c *cur) uint64 { return c.uN(d.L) }

func validSize(n int) bool { return n == 2 || n == 4 || n == 8 }

// run decodes the whole file.
func (d *decoder) run() {
	d.headers = map[uint64]*header{}
	d.gcols = map[uint64]*gcol{}
	d.lheaps = map[uint64]*localHeap{}
	d.fheaps = map[uint64]*fractalHeap{}
	d.extentSeen = map[uint64]bool{}
	d.groupLeafK, d.groupIntK, d.istoreK = 4, 16, 32

	sbAddr, ok := d.findSuperblock()
	if !ok {
		d.finding("superblock-signature", 0, "no superblock signature at offsets 0, 512, 1024, ...")
		return
	}
	d.res.SuperblockAddr = sbAddr
	extAddr, extOK, ok := d.parseSuperblock(sbAddr)
	if !ok {
		return
	}
	if extOK {
		d.decodeSuperblockExtension(extAddr)
	}
	// Decode every object reachable from the root.
	d.enqueue(d.res.RootAddr)
	for len(d.queue) > 0 {
		a := d.queue[0]
		d.queue = d.queue[1:]
		d.decodeObject(a)
	}
}

func (d *decoder) enqueue(addr uint64) {
	if _, done := d.res.Objects[addr]; done {
		return
	}
	if len(d.res.Objects) >= maxObjects {
		d.res.addLimitation("more than 1<<20 objects; remaining objects not decoded")
		return
	}
	d.res.Objects[addr] = nil // reserve: decoded later, prevents double queueing
	d.queue = append(d.queue, addr)
}

// findSuperblock searches the signature at 0 and at every power of two >= 512.
func (d *decoder) findSuperblock() (uint64, bool) {
	for off := uint64(0); off+8 <= uint64(len(d.f)); {
		if bytes.Equal(d.f[off:off+8], sbSignature) {
			return off, true
		}
		if off == 0 {
			off = 512
		} else {
			off *= 2
		}
	}
	return 0, false
}

// parseSuperblock decodes superblock versions 0-3 located at sb.
func (d *decoder) parseSuperblock(sb uint64) (extAddr uint64, extDefined, ok bool) {
	c := &cur{b: d.tail(sb)}
	c.skip(8)
	ver := int(c.u8())
	d.res.SuperblockVersion = ver
	var baseStored, eofStored, rootStored, extStored uint64
	var size uint64
	switch ver {
	case 0, 1:
		c.u8() // free-space storage version
		c.u8() // root group symbol table entry version
		c.u8() // reserved
		c.u8() // shared header message format version
		d.O = int(c.u8())
		d.L = int(c.u8())
		c.u8() // reserved
		leafK := int(c.u16())
		intK := int(c.u16())
		c.u32() // file consistency flags
		if ver == 1 {
			ik := int(c.u16())
			c.u16()
			if ik > 0 {
				d.istoreK = ik
			}
		}
		if c.bad || !validSize(d.O) || !validSize(d.L) {
			d.finding("superblock-sizes", sb, "size of offsets %d / size of lengths %d not in {2,4,8} or superblock truncated", d.O, d.L)
			return 0, false, false
		}
		if leafK > 0 {
			d.groupLeafK = leafK
		} else {
			d.finding("superblock-k-zero", sb, "group leaf node K is zero")
		}
		if intK > 0 {
			d.groupIntK = intK
		} else {
			d.finding("superblock-k-zero", sb, "group internal node K is zero")
		}
		d.setUndef()
		baseStored = c.uN(d.O)
		c.uN(d.O) // address of file free-space info
		eofStored = c.uN(d.O)
		if drv := c.uN(d.O); !c.bad && drv != d.undef {
			d.res.addLimitation("driver information block (multi / family file driver) not decoded; raw data may live in other member files")
		}
		// root group symbol table entry
		c.uN(d.O) // link name offset
		rootStored = c.uN(d.O)
		cacheType := c.u32()
		c.u32()
		scratch := c.bytes(16)
		if c.bad {
			d.finding("superblock-truncated", sb, "version %d superblock runs past the end of the file", ver)
			return 0, false, false
		}
		if cacheType > 2 {
			d.finding("symbol-entry-cache-type", sb, "root symbol table entry has cache type %d", cacheType)
		}
		_ = scratch
		size = uint64(c.p)
		extStored = d.undef
	case 2, 3:
		d.O = int(c.u8())
		d.L = int(c.u8())
		c.u8() // file consistency flags
		if c.bad || !validSize(d.O) || !validSize(d.L) {
			d.finding("superblock-sizes", sb, "size of offsets %d / size of lengths %d not in {2,4,8} or superblock truncated", d.O, d.L)
			return 0, false, false
		}
		d.setUndef()
		baseStored = c.uN(d.O)
		extStored = c.uN(d.O)
		eofStored = c.uN(d.O)
		rootStored = c.uN(d.O)
		sumAt := c.p
		stored := c.u32()
		if c.bad {
			d.finding("superblock-truncated", sb, "version %d superblock runs past the end of the file", ver)
			return 0, false, false
		}
		if got := Lookup3(c.b[:sumAt], 0); got != stored {
			d.finding("superblock-checksum", sb, "%s", checksumNote(c.b[:sumAt], stored, got))
		}
		size = uint64(c.p)
	default:
		d.finding("superblock-version", sb, "superblock version %d is not defined by the specification", ver)
		return 0, false, false
	}
	d.res.OffsetSize, d.res.LengthSize = d.O, d.L
	d.extent(sb, size, "superblock", "")

	// All stored addresses are relative to the base address. The reference
	// implementation re-bases on the location where the signature was found
	// when the two disagree (files with a user block).
	d.base = baseStored
	if baseStored == d.undef {
		d.finding("superblock-base-address", sb, "base address is undefined")
		d.base = sb
	} else if baseStored != sb {
		d.finding("superblock-base-address", sb, "base address %#x differs from superblock location %#x", baseStored, sb)
		d.base = sb
	}
	d.res.BaseAddr = d.base
	d.res.EOFAddr = eofStored // the specification defines this one as an absolute address
	if eofStored == d.undef {
		d.finding("superblock-eof-undefined", sb, "end-of-file address is undefined")
		d.res.EOFAddr = 0
	} else if eofStored < d.res.FileSize {
		d.finding("superblock-eof-too-small", sb, "end-of-file address %#x is smaller than the file size %#x", eofStored, d.res.FileSize)
	} else if eofStored > d.res.FileSize {
		d.finding("superblock-eof-beyond-file", sb, "end-of-file address %#x is larger than the file size %#x (truncated file)", eofStored, d.res.FileSize)
	}
	if rootStored == d.undef {
		d.finding("superblock-root-undefined", sb, "root group object header address is undefined")
		return 0, false, false
	}
	d.res.RootAddr = rootStored + d.base
	if extStored != d.undef {
		return extStored + d.base, true, true
	}
	return 0, false, true
}

func (d *decoder) setUndef() {
	if d.O >= 8 {
		d.undef = ^uint64(0)
	} else {
		d.undef = (uint64(1) << (8 * uint(d.O))) - 1
	}
}

// decodeSuperblockExtension reads the superblock extension object header for
// its extents and for the B-tree K values it may override.
func (d *decoder) decodeSuperblockExtension(addr uint64) {
	h := d.header(addr, "")
	if h == nil || !h.ok {
		return
	}
	for _, m := range h.msgs {
		switch m.typ {
		case msgBtreeK:
			c := &cur{b: m.data}
			c.u8()
			ik, gi, gl := int(c.u16()), int(c.u16()), int(c.u16())
			if !c.bad {
				if ik > 0 {
					d.istoreK = ik
				}
				if gi > 0 {
					d.groupIntK = gi
				}
				if gl > 0 {
					d.groupLeafK = gl
				}
			}
		case msgSharedTable:
			d.res.addLimitation("shared object header message table (SOHM) not implemented")
		case msgFileSpace:
			d.res.addLimitation("file space info / free-space managers not decoded")
		case msgDriverInfo:
			d.res.addLimitation("driver info message not decoded")
		}
	}
}

// ---------------------------------------------------------------------------
// Object headers.

// header parses (once) the object header at the absolute address addr. owner is
// the Owner string used for its extents; "" means "the header itself".
func (d *decoder) header(addr uint64, owner string) *header {
	if h, ok := d.headers[addr]; ok {
		return h
	}
	h := &header{}
	d.headers[addr] = h // set first: a continuation loop back to addr must not recurse
	if owner == "" && addr != 0 {
		owner = ownerOf(addr)
	}
	b := d.tail(addr)
	switch {
	case len(b) >= 4 && string(b[:4]) == "OHDR":
		d.parseHeaderV2(addr, h, owner)
	case len(b) >= 1 && b[0] == 1:
		d.parseHeaderV1(addr, h, owner)
	default:
		if b == nil || len(b) == 0 {
			d.finding("out-of-bounds", addr, "object header address is outside the file (size %#x)", len(d.f))
		} else {
			d.finding("ohdr-signature", addr, "neither a version-1 prefix nor \"OHDR\": first bytes % x", b[:min(4, len(b))])
		}
	}
	return h
}

type contBlock struct{ addr, size uint64 }

func (d *decoder) parseHeaderV1(addr uint64, h *header, owner string) {
	c := &cur{b: d.tail(addr)}
	c.u8() // version 1
	if r := c.u8(); r != 0 && !c.bad {
		d.finding("ohdr-reserved-nonzero", addr, "version-1 header reserved byte is %#x", r)
	}
	nmsgs := int(c.u16())
	h.refcount = c.u32()
	hsize := uint64(c.u32())
	if c.bad {
		d.finding("out-of-bounds", addr, "version-1 object header prefix truncated")
		return
	}
	h.version = 1
	// The 12-byte prefix is padded so that message data is 8-byte aligned.
	const prefix = 16
	d.extent(addr, prefix+hsize, "ohdr-v1", owner)
	if d.slice(addr, prefix+hsize) == nil {
		d.finding("out-of-bounds", addr, "version-1 object header of %d bytes runs past the end of the file", prefix+hsize)
		// continue with whatever is there
	}
	h.ok = true
	count := 0
	var conts []contBlock
	seen := map[uint64]bool{}
	parseChunk := func(start, size uint64) {
		b := d.tail(start)
		if uint64(len(b)) > size {
			b = b[:size]
		}
		p := 0
		for p+8 <= len(b) {
			mc := &cur{b: b[p:]}
			typ := mc.u16()
			msize := int(mc.u16())
			flags := mc.u8()
			mc.skip(3)
			if p+8+msize > len(b) {
				d.finding("ohdr-message-overrun", start+uint64(p), "message type %#x size %d exceeds its chunk", typ, msize)
				break
			}
			if msize%8 != 0 {
				d.finding("ohdr-message-alignment", start+uint64(p), "version-1 message type %#x has size %d, not a multiple of 8", typ, msize)
			}
			m := rawMsg{typ: typ, flags: flags, data: b[p+8 : p+8+msize], off: start + uint64(p) + 8}
			h.msgs = append(h.msgs, m)
			count++
			if typ == msgContinuation {
				cc := &cur{b: m.data}
				ca, def := d.addr(cc)
				cl := d.length(cc)
				if cc.bad || !def {
					d.finding("ohdr-continuation", m.off, "continuation message truncated or undefined address")
				} else {
					conts = append(conts, contBlock{ca, cl})
				}
			}
			p += 8 + msize
		}
	}
	parseChunk(addr+prefix, hsize)
	for i := 0; i < len(conts) && i < 4096; i++ {
		cb := conts[i]
		if seen[cb.addr] || cb.addr == addr {
			d.finding("ohdr-continuation-loop", cb.addr, "continuation block visited twice")
			continue
		}
		seen[cb.addr] = true
		d.extent(cb.addr, cb.size, "ohdr-cont", owner)
		if d.slice(cb.addr, cb.size) == nil {
			d.finding("out-of-bounds", cb.addr, "continuation block of %d bytes runs past the end of the file", cb.size)
		}
		parseChunk(cb.addr, cb.size)
	}
	if count != nmsgs {
		d.finding("ohdr-message-count", addr, "header says %d messages, chunks contain %d", nmsgs, count)
	}
}

func (d *decoder) parseHeaderV2(addr uint64, h *header, owner string) {
	c := &cur{b: d.tail(addr)}
	c.skip(4)
	ver := c.u8()
	flags := c.u8()
	if ver != 2 {
		d.finding("ohdr-version", addr, "\"OHDR\" with version %d", ver)
	}
	if flags&0xC0 != 0 {
		d.finding("ohdr-flags-reserved", addr, "reserved flag bits set: %#x", flags)
	}
	if flags&0x20 != 0 {
		c.skip(16) // access, modification, change, birth times
	}
	if flags&0x10 != 0 {
		c.u16() // max compact attributes
		c.u16() // min dense attributes
	}
	csize := c.uN(1 << (flags & 3))
	if c.bad {
		d.finding("out-of-bounds", addr, "version-2 object header prefix truncated")
		return
	}
	h.version = 2
	h.hflags = flags
	h.refcount = 1
	prefix := uint64(c.p)
	total, ok := addOK(prefix+4, csize)
	if !ok {
		total = ^uint64(0) - addr
	}
	_ = total
	h.ok = true
	mhdr := 4
	if flags&0x04 != 0 {
		mhdr = 6
	}
	var conts []contBlock
	// parseChunk parses messages in [mstart, mstart+msize) and verifies the
	// checksum that follows, which covers [cstart, mstart+msize). It records
	// the chunk's extent: including the checksum field when the checksum
	// verifies, excluding it when it does not (a writer that omits the field
	// altogether would otherwise produce a cascade of bogus overlaps; the
	// "ohdr-checksum" finding already tells the story).
	parseChunk := func(cstart, mstart, msize uint64, what, kind string) {
		class := "ohdr-checksum"
		if kind == "ohdr-cont" {
			class = "ochk-checksum"
		}
		covered := d.slice(cstart, mstart-cstart+msize)
		if covered == nil {
			d.finding("out-of-bounds", cstart, "%s of %d bytes (without checksum) runs past the end of the file", what, mstart-cstart+msize)
			d.extent(cstart, mstart-cstart+msize+4, kind, owner)
			covered = d.tail(cstart)
			if uint64(len(covered)) < mstart-cstart {
				return
			}
		} else if sum := d.slice(mstart+msize, 4); sum == nil {
			d.finding(class, cstart, "%s: the 4-byte checksum field at %#x lies beyond the end of the file", what, mstart+msize)
			d.extent(cstart, mstart-cstart+msize, kind, owner)
		} else {
			stored := (&cur{b: sum}).u32()
			if got := Lookup3(covered, 0); got != stored {
				d.finding(class, cstart, "%s: %s; extent recorded without the checksum field", what, checksumNote(covered, stored, got))
				d.extent(cstart, mstart-cstart+msize, kind, owner)
			} else {
				d.extent(cstart, mstart-cstart+msize+4, kind, owner)
			}
		}
		b := covered[mstart-cstart:]
		p := 0
		for p+mhdr <= len(b) {
			mc := &cur{b: b[p:]}
			typ := uint16(mc.u8())
			sz := int(mc.u16())
			mf := mc.u8()
			if p+mhdr+sz > len(b) {
				d.finding("ohdr-message-overrun", mstart+uint64(p), "message type %#x size %d exceeds its chunk (%d bytes left)", typ, sz, len(b)-p-mhdr)
				break
			}
			m := rawMsg{typ: typ, flags: mf, data: b[p+mhdr : p+mhdr+sz], off: mstart + uint64(p) + uint64(mhdr)}
			h.msgs = append(h.msgs, m)
			if typ == msgContinuation {
				cc := &cur{b: m.data}
				ca, def := d.addr(cc)
				cl := d.length(cc)
				if cc.bad || !def {
					d.finding("ohdr-continuation", m.off, "continuation message truncated or undefined address")
				} else {
					conts = append(conts, contBlock{ca, cl})
				}
			}
			p += mhdr + sz
		}
		// Whatever is left is the gap; the specification requires it to be
		// smaller than a message header, which the loop guarantees.
	}
	parseChunk(addr, addr+prefix, csize, "object header", "ohdr-v2")
	seen := map[uint64]bool{}
	for i := 0; i < len(conts) && i < 4096; i++ {
		cb := conts[i]
		if seen[cb.addr] || cb.addr == addr {
			d.finding("ohdr-continuation-loop", cb.addr, "continuation block visited twice")
			continue
		}
		seen[cb.addr] = true
		sig := d.slice(cb.addr, 4)
		if sig == nil || string(sig) != "OCHK" {
			d.extent(cb.addr, cb.size, "ohdr-cont", owner)
			d.finding("ochk-signature", cb.addr, "continuation block does not start with \"OCHK\"")
			continue
		}
		if cb.size < 8 {
			d.extent(cb.addr, cb.size, "ohdr-cont", owner)
			d.finding("ochk-size", cb.addr, "continuation block length %d is smaller than signature plus checksum", cb.size)
			continue
		}
		parseChunk(cb.addr, cb.addr+4, cb.size-8, "continuation block", "ohdr-cont")
	}
}

// resolveShared follows a shared-message record (message flag bit 1) to the
// object header that holds the real message and returns that message's bytes.
func (d *decoder) resolveShared(typ uint16, data []byte, at uint64, depth int) ([]byte, uint64, bool) {
	if depth > 4 {
		return nil, 0, false
	}
	c := &cur{b: data}
	ver := c.u8()
	styp := c.u8()
	switch ver {
	case 1:
		c.skip(6)
		// Files written before HDF5 1.6.1 store a complete symbol table entry
		// (name offset, object header address, cache type, reserved, scratch)
		// instead of the bare address; the message length tells them apart.
		if len(data) >= 8+2*d.O+24 {
			c.skip(d.O)
		}
	case 2:
	case 3:
		if styp == 1 {
			d.res.addLimitation("shared message stored in the SOHM fractal heap not implemented")
			return nil, 0, false
		}
	default:
		d.finding("shared-message-version", at, "shared message version %d", ver)
		return nil, 0, false
	}
	a, def := d.addr(c)
	if c.bad || !def {
		d.finding("shared-message-address", at, "shared message is truncated or has an undefined address")
		return nil, 0, false
	}
	d.enqueue(a) // make sure the committed object is decoded and its extents recorded
	h := d.header(a, "")
	if h == nil || !h.ok {
		return nil, 0, false
	}
	for _, m := range h.msgs {
		if m.typ == typ {
			if m.flags&0x02 != 0 {
				return d.resolveShared(typ, m.data, m.off, depth+1)
			}
			return m.data, m.off, true
		}
	}
	d.finding("shared-message-missing", at, "object header %#x has no message of type %#x", a, typ)
	return nil, 0, false
}

// decodeObject turns the object header at addr into an Object.
func (d *decoder) decodeObject(addr uint64) {
	o := &Object{Addr: addr, Kind: "unknown", AttrStorage: "none"}
	d.res.Objects[addr] = o
	h := d.header(addr, "")
	if h == nil || !h.ok {
		return
	}
	o.HeaderVersion = h.version
	o.RefCount = h.refcount
	owner := ownerOf(addr)

	var (
		space     *dataspace
		lay       *layoutInfo
		stab      *rawMsg
		linfo     *linkInfo
		ainfo     *attrInfo
		isGroup   bool
		external  bool
		seenTypes = map[uint16]int{}
		// present but not decodable (finding or limitation already recorded)
		badSpace, badType bool
	)
	for i := range h.msgs {
		m := h.msgs[i]
		o.MsgTypes = append(o.MsgTypes, m.typ)
		seenTypes[m.typ]++
		data, off := m.data, m.off
		if m.flags&0x02 != 0 && m.typ != msgNil {
			var ok bool
			data, off, ok = d.resolveShared(m.typ, m.data, m.off, 0)
			if !ok {
				badSpace = badSpace || m.typ == msgDataspace
				badType = badType || m.typ == msgDatatype
				continue
			}
		}
		switch m.typ {
		case msgNil:
		case msgDataspace:
			if s, ok := d.parseDataspace(data, off); ok {
				space = s
				o.Dims, o.MaxDims, o.NullSpace = s.dims, s.maxDims, s.null
			} else {
				badSpace = true
			}
		case msgDatatype:
			if t, _, ok := d.parseDatatype(data, off, 0); ok {
				o.Type = t
			} else {
				badType = true
			}
		case msgLayout:
			if l, ok := d.parseLayout(data, off); ok {
				lay = l
			}
		case msgFilters:
			if fs, ok := d.parseFilters(data, off); ok {
				o.Filters = fs
			}
		case msgAttribute:
			if a, ok := d.parseAttribute(data, off, owner); ok {
				o.Attrs = append(o.Attrs, a)
				o.AttrStorage = "compact"
			}
		case msgLink:
			isGroup = true
			if l, ok := d.parseLink(data, off); ok {
				o.Links = append(o.Links, l)
			}
		case msgLinkInfo:
			isGroup = true
			if li, ok := d.parseLinkInfo(data, off); ok {
				linfo = li
			}
		case msgGroupInfo:
			isGroup = true
		case msgSymbolTable:
			isGroup = true
			mm := m
			mm.data, mm.off = data, off
			stab = &mm
		case msgAttrInfo:
			if ai, ok := d.parseAttrInfo(data, off); ok {
				ainfo = ai
			}
		case msgRefCount:
			c := &cur{b: data}
			if len(data) == 4 {
				// version byte missing: a bare 32-bit count
				d.finding("refcount-message-layout", off, "object reference count message is 4 bytes (bare count %d); the specification requires version byte + 4-byte count", c.u32())
				c.p = 0
				o.RefCount = c.u32()
				break
			}
			if v := c.u8(); v != 0 {
				d.finding("refcount-version", off, "object reference count message version %d", v)
			}
			if rc := c.u32(); !c.bad {
				o.RefCount = rc
			}
		case msgExternal:
			external = true
		case msgSharedTable:
			// 0x000F is the Shared Message Table message and belongs in the
			// superblock extension only (version, address, index count = 2+O
			// bytes). A longer one in an ordinary header that reads as an
			// Attribute Info message (0x0015) is taken to be one.
			if len(data) >= 2+2*d.O {
				var ai *attrInfo
				if d.trial(func() bool { var ok bool; ai, ok = d.parseAttrInfo(data, off); return ok && ai.heapOK == ai.btOK }) {
					d.finding("attr-info-message-type", off, "attribute info stored under message type 0x000F (Shared Message Table); the specification assigns 0x0015")
					ainfo = ai
				}
			}
		case msgFill, msgFillOld, msgComment, msgModTime, msgModTimeOld, msgContinuation,
			msgBtreeK, msgDriverInfo, msgFileSpace, msgBogus, msgMDCImage:
			// decoded elsewhere or not needed for the structural description
		default:
			d.finding("ohdr-unknown-message-type", off, "message type %#x is not defined by the specification", m.typ)
		}
	}
	for _, t := range []uint16{msgDataspace, msgDatatype, msgLayout, msgFilters, msgSymbolTable, msgLinkInfo, msgAttrInfo} {
		if seenTypes[t] > 1 {
			d.finding("ohdr-duplicate-message", addr, "message type %#x appears %d times", t, seenTypes[t])
		}
	}

	switch {
	case lay != nil:
		o.Kind = "dataset"
	case isGroup:
		o.Kind = "group"
	case (o.Type != nil || badType) && space == nil && !badSpace:
		o.Kind = "datatype"
	}

	// Groups.
	if stab != nil {
		o.LinkStorage = "symbol-table"
		c := &cur{b: stab.data}
		bt, btOK := d.addr(c)
		hp, hpOK := d.addr(c)
		if c.bad || !btOK || !hpOK {
			d.finding("symbol-table-message", stab.off, "symbol table message truncated or has undefined addresses")
		} else {
			o.Links = append(o.Links, d.readSymbolTable(bt, hp, owner)...)
		}
	} else if isGroup {
		o.LinkStorage = "compact"
	}
	if linfo != nil && linfo.heapOK {
		o.LinkStorage = "dense"
		o.Links = append(o.Links, d.readDenseLinks(linfo, owner)...)
	}
	for i := range o.Links {
		if o.Links[i].Kind == "hard" {
			d.enqueue(o.Links[i].Addr)
		}
	}
	// An object header that consists of nothing but one soft/external link
	// message is not something the specification knows: such links belong in
	// the parent group (symbol table entry cache type 2, or a link message in
	// the parent's header).
	if n := nonNil(h.msgs); n == 1 && len(o.Links) == 1 && o.Links[0].Kind != "hard" && stab == nil && linfo == nil {
		d.finding("link-stored-as-object", addr, "object header holds only a %s link message %q: the link is reachable as <name>/%s of a pseudo-group instead of being a %s link of the parent group",
			o.Links[0].Kind, o.Links[0].Name, o.Links[0].Name, o.Links[0].Kind)
	}

	// Dense attributes.
	if ainfo != nil && ainfo.heapOK {
		o.AttrStorage = "dense"
		o.Attrs = append(o.Attrs, d.readDenseAttrs(ainfo, owner)...)
	}

	// Dataset payload.
	if lay != nil {
		o.Layout = lay.className()
		o.LayoutVersion = lay.version
		o.ChunkDims = lay.chunkDims
		switch {
		case space == nil && badSpace:
			o.DataErr = "dataspace message could not be decoded"
		case o.Type == nil && badType:
			o.DataErr = "datatype message could not be decoded"
		case space == nil:
			o.DataErr = "dataset has no dataspace message"
			d.finding("dataset-missing-message", addr, "data layout message without dataspace message")
		case o.Type == nil:
			o.DataErr = "dataset has no datatype message"
			d.finding("dataset-missing-message", addr, "data layout message without datatype message")
		case external:
			o.DataErr = "raw data in external files"
			d.res.addLimitation("external data files message (raw data stored outside the file) not implemented")
		default:
			d.readDatasetData(o, space, lay, owner)
		}
		if o.DataErr == "" && o.Type != nil && o.Type.Class == 9 {
			o.VLen = d.resolveVLen(o.Data, o.Type, owner)
		}
	}
}

func nonNil(ms []rawMsg) int {
	n := 0
	for _, m := range ms {
		if m.typ != msgNil {
			n++
		}
	}
	return n
}

func (l *layoutInfo) className() string {
	switch l.class {
	case 0:
		return "compact"
	case 1:
		return "contiguous"
	case 2:
		return "chunked"
	case 3:
		return "virtual"
	}
	return fmt.Sprintf("class-%d", l.class)
}
