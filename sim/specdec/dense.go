package specdec

import "sort"

// Fractal heaps (specification III.G), version-2 B-trees (III.A.2) and the dense
// link / dense attribute storage built from them.

type fhBlock struct {
	off, size uint64 // range of heap address space covered
	addr      uint64 // absolute file address of the "FHDB" block
}

type fractalHeap struct {
	ok          bool
	addr        uint64
	idLen       int
	filterLen   int
	flags       uint8
	maxManaged  uint64
	width       int
	startSize   uint64
	maxDirect   uint64
	maxHeapBits int
	rootAddr    uint64
	rootOK      bool
	rootRows    int
	offBytes    int // bytes used for heap offsets
	lenBytes    int // bytes used for object lengths in managed IDs
	nManaged    uint64
	nObjects    uint64    // managed + huge + tiny
	blocks      []fhBlock // direct blocks sorted by heap offset
	// payloadRelative is set when the managed-object offsets of this heap were
	// found to count from the end of the direct block header instead of
	// covering the whole block (see fhDecideOffsets).
	payloadRelative bool
	offsetsDecided  bool
}

func (h *fractalHeap) rowSize(row int) uint64 {
	if row <= 1 {
		return h.startSize
	}
	if row-1 >= 63 {
		return 0
	}
	return h.startSize << uint(row-1)
}

// fractalHeapAt parses (once) the heap header at addr and walks all of its
// managed blocks.
func (d *decoder) fractalHeapAt(addr uint64, owner string) *fractalHeap {
	if h, ok := d.fheaps[addr]; ok {
		return h
	}
	h := &fractalHeap{addr: addr}
	d.fheaps[addr] = h
	c := &cur{b: d.tail(addr)}
	sig := c.bytes(4)
	if c.bad || string(sig) != "FRHP" {
		d.finding("frhp-signature", addr, "fractal heap header does not start with \"FRHP\"")
		return h
	}
	if v := c.u8(); v != 0 {
		d.finding("frhp-version", addr, "fractal heap version %d", v)
	}
	h.idLen = int(c.u16())
	h.filterLen = int(c.u16())
	h.flags = c.u8()
	h.maxManaged = uint64(c.u32())
	d.length(c) // next huge object ID
	d.addr(c)   // huge object B-tree address
	d.length(c) // free space in managed blocks
	d.addr(c)   // free space manager address
	d.length(c) // managed space
	d.length(c) // allocated managed space
	d.length(c) // direct block allocation iterator offset
	h.nManaged = d.length(c)
	d.length(c) // size of huge objects
	nHuge := d.length(c)
	d.length(c) // size of tiny objects
	nTiny := d.length(c)
	h.nObjects = h.nManaged + nHuge + nTiny
	h.width = int(c.u16())
	h.startSize = d.length(c)
	h.maxDirect = d.length(c)
	h.maxHeapBits = int(c.u16())
	c.u16() // starting # of rows in root indirect block
	h.rootAddr, h.rootOK = d.addr(c)
	h.rootRows = int(c.u16())
	if h.filterLen > 0 {
		d.length(c) // size of filtered root direct block
		c.u32()     // filter mask
		c.skip(h.filterLen)
	}
	sumAt := c.p
	stored := c.u32()
	if c.bad {
		d.finding("out-of-bounds", addr, "fractal heap header truncated")
		return h
	}
	d.extent(addr, uint64(c.p), "frhp", owner)
	if got := Lookup3(c.b[:sumAt], 0); got != stored {
		d.finding("frhp-checksum", addr, "%s", checksumNote(c.b[:sumAt], stored, got))
	}
	isPow2 := func(v uint64) bool { return v != 0 && v&(v-1) == 0 }
	if h.width == 0 || !isPow2(uint64(h.width)) || !isPow2(h.startSize) || !isPow2(h.maxDirect) ||
		h.maxDirect < h.startSize || h.maxHeapBits == 0 || h.maxHeapBits > 64 {
		d.finding("frhp-parameters", addr, "table width %d, starting block size %d, max direct size %d, max heap size %d bits", h.width, h.startSize, h.maxDirect, h.maxHeapBits)
		return h
	}
	if h.maxHeapBits < 64 && h.maxDirect > uint64(1)<<uint(h.maxHeapBits) {
		d.finding("frhp-parameters", addr, "maximum direct block size %d exceeds the heap's %d-bit address space", h.maxDirect, h.maxHeapBits)
	}
	h.offBytes = (h.maxHeapBits + 7) / 8
	h.lenBytes = min(limitEncSize(h.maxDirect), limitEncSize(h.maxManaged))
	if 1+h.offBytes+h.lenBytes > h.idLen {
		d.finding("frhp-id-length", addr, "heap ID length %d cannot hold a managed ID of 1+%d+%d bytes", h.idLen, h.offBytes, h.lenBytes)
	}
	h.ok = true
	if h.filterLen > 0 {
		d.res.addLimitation("fractal heaps with I/O filters not implemented")
		h.ok = false
		return h
	}
	if !h.rootOK {
		return h // empty heap
	}
	visited := map[uint64]bool{}
	if h.rootRows == 0 {
		d.fhDirect(h, h.rootAddr, 0, h.startSize, owner)
	} else {
		d.fhIndirect(h, h.rootAddr, 0, h.rootRows, owner, 0, visited)
	}
	sort.Slice(h.blocks, func(i, j int) bool { return h.blocks[i].off < h.blocks[j].off })
	return h
}

// fhDirect validates one direct block and registers it.
func (d *decoder) fhDirect(h *fractalHeap, addr, off, size uint64, owner string) {
	d.extent(addr, size, "fhdb", owner)
	b := d.slice(addr, size)
	if b == nil {
		d.finding("out-of-bounds", addr, "fractal heap direct block of %d bytes runs past the end of the file", size)
		return
	}
	c := &cur{b: b}
	if string(c.bytes(4)) != "FHDB" {
		d.finding("fhdb-signature", addr, "direct block does not start with \"FHDB\"")
		return
	}
	if v := c.u8(); v != 0 {
		d.finding("fhdb-version", addr, "direct block version %d", v)
	}
	if ha, def := d.addr(c); !def || ha != h.addr {
		d.finding("fhdb-heap-address", addr, "direct block names heap header %#x, expected %#x", ha, h.addr)
	}
	if bo := c.uN(h.offBytes); bo != off {
		d.finding("fhdb-block-offset", addr, "direct block offset %d, position in the doubling table implies %d", bo, off)
	}
	if h.flags&0x02 != 0 {
		at := c.p
		stored := c.u32()
		if !c.bad {
			tmp := append([]byte(nil), b...)
			tmp[at], tmp[at+1], tmp[at+2], tmp[at+3] = 0, 0, 0, 0
			if got := Lookup3(tmp, 0); got != stored {
				d.finding("fhdb-checksum", addr, "%s", checksumNote(tmp, stored, got))
			}
		}
	}
	if c.bad {
		d.finding("out-of-bounds", addr, "direct block header truncated")
		return
	}
	h.blocks = append(h.blocks, fhBlock{off: off, size: size, addr: addr})
}

// fhIndirect walks one indirect block with nrows rows whose first byte of heap
// address space is off.
func (d *decoder) fhIndirect(h *fractalHeap, addr, off uint64, nrows int, owner string, depth int, visited map[uint64]bool) {
	if depth > 16 || visited[addr] || nrows > 128 {
		d.finding("fhib-cycle", addr, "indirect block reached twice, nested too deep or has %d rows", nrows)
		return
	}
	visited[addr] = true
	c := &cur{b: d.tail(addr)}
	if string(c.bytes(4)) != "FHIB" {
		d.finding("fhib-signature", addr, "indirect block does not start with \"FHIB\"")
		return
	}
	if v := c.u8(); v != 0 {
		d.finding("fhib-version", addr, "indirect block version %d", v)
	}
	if ha, def := d.addr(c); !def || ha != h.addr {
		d.finding("fhib-heap-address", addr, "indirect block names heap header %#x, expected %#x", ha, h.addr)
	}
	if bo := c.uN(h.offBytes); bo != off {
		d.finding("fhib-block-offset", addr, "indirect block offset %d, position in the doubling table implies %d", bo, off)
	}
	type child struct {
		addr, off, size uint64
		row             int
	}
	var kids []child
	pos := off
	for r := 0; r < nrows; r++ {
		rs := h.rowSize(r)
		for col := 0; col < h.width; col++ {
			a, def := d.addr(c)
			if c.bad {
				break
			}
			if def {
				kids = append(kids, child{a, pos, rs, r})
			}
			pos += rs
		}
	}
	sumAt := c.p
	stored := c.u32()
	if c.bad {
		d.finding("out-of-bounds", addr, "indirect block with %d rows runs past the end of the file", nrows)
		return
	}
	d.extent(addr, uint64(c.p), "fhib", owner)
	if got := Lookup3(c.b[:sumAt], 0); got != stored {
		d.finding("fhib-checksum", addr, "%s", checksumNote(c.b[:sumAt], stored, got))
	}
	for _, k := range kids {
		if len(h.blocks) > 1<<18 {
			d.res.addLimitation("fractal heaps with more than 1<<18 direct blocks not fully walked")
			return
		}
		if k.size <= h.maxDirect {
			d.fhDirect(h, k.addr, k.off, k.size, owner)
		} else {
			// rows of a child indirect block covering k.size bytes
			rows := int(log2floor(k.size)) - int(log2floor(h.startSize*uint64(h.width))) + 1
			d.fhIndirect(h, k.addr, k.off, rows, owner, depth+1, visited)
		}
	}
}

func (h *fractalHeap) dblockHeader(O int) uint64 {
	n := uint64(5 + O + h.offBytes)
	if h.flags&0x02 != 0 {
		n += 4
	}
	return n
}

// fhDecideOffsets inspects all heap IDs of an index before any is resolved. The
// specification's managed-object offset is a position in the heap's address
// space, which includes each direct block's header, so no object can start
// inside a header. If some ID does, the writer evidently counted offsets from
// the end of the header; the whole heap is then decoded that way.
func (d *decoder) fhDecideOffsets(h *fractalHeap, ids [][]byte, at uint64) {
	if h == nil || !h.ok || h.offsetsDecided {
		return
	}
	h.offsetsDecided = true
	hdr := h.dblockHeader(d.O)
	for _, id := range ids {
		if len(id) < 1+h.offBytes || id[0]>>4 != 0 {
			continue
		}
		off := (&cur{b: id[1:]}).uN(h.offBytes)
		i := sort.Search(len(h.blocks), func(i int) bool { return h.blocks[i].off+h.blocks[i].size > off })
		if i < len(h.blocks) && h.blocks[i].off <= off && off-h.blocks[i].off < hdr {
			h.payloadRelative = true
			d.finding("heap-id-offset-base", at, "managed heap ID has offset %d, inside the %d-byte header of direct block [%d,+%d): offsets count from the end of the block header instead of addressing the heap's linear address space; decoded that way", off, hdr, h.blocks[i].off, h.blocks[i].size)
			return
		}
	}
}

// fhDecideByHash settles the offset base when no heap ID happens to fall inside
// a block header (so fhDecideOffsets saw no evidence): every name-index record
// carries the lookup3 hash of the object's name, which identifies the decoding
// that yields the right object. If no record's object, read at its specified
// position, has a name with the recorded hash, but objects read at
// payload-relative positions do, the heap is decoded payload-relative.
func (d *decoder) fhDecideByHash(h *fractalHeap, ids [][]byte, hashes []uint32, nameOf func([]byte) (string, bool), at uint64) {
	if h == nil || !h.ok || h.payloadRelative || len(ids) != len(hashes) {
		return
	}
	matches := func() int {
		n := 0
		for i, id := range ids {
			d.trial(func() bool {
				if obj, ok := d.fhObject(h, id, at); ok {
					if name, ok := nameOf(obj); ok && Lookup3([]byte(name), 0) == hashes[i] {
						n++
					}
				}
				return false // never keep findings of a probe
			})
		}
		return n
	}
	if len(ids) == 0 || matches() > 0 {
		return
	}
	h.payloadRelative = true
	if matches() == 0 {
		h.payloadRelative = false
		return
	}
	d.finding("heap-id-offset-base", at, "no managed object read at its heap ID's position in the heap's linear address space has the name hash of its index record, but every position counted from the end of the direct block header does: offsets are payload-relative; decoded that way")
}

// fhObject returns the bytes of the heap object named by a heap ID.
func (d *decoder) fhObject(h *fractalHeap, id []byte, at uint64) ([]byte, bool) {
	if h == nil || !h.ok || len(id) == 0 {
		return nil, false
	}
	if v := id[0] >> 6; v != 0 {
		d.finding("heap-id-version", at, "heap ID version %d", v)
		return nil, false
	}
	switch (id[0] >> 4) & 3 {
	case 0: // managed
		c := &cur{b: id[1:]}
		off := c.uN(h.offBytes)
		ln := c.uN(h.lenBytes)
		if c.bad {
			d.finding("heap-id-short", at, "heap ID of %d bytes cannot hold offset (%d) and length (%d)", len(id), h.offBytes, h.lenBytes)
			return nil, false
		}
		i := sort.Search(len(h.blocks), func(i int) bool { return h.blocks[i].off+h.blocks[i].size > off })
		if i >= len(h.blocks) || h.blocks[i].off > off {
			d.finding("heap-id-unresolved", at, "managed object at heap offset %d is not inside any direct block", off)
			return nil, false
		}
		b := h.blocks[i]
		hdr := h.dblockHeader(d.O)
		if h.payloadRelative {
			if off-b.off+hdr+ln > b.size {
				d.finding("heap-id-unresolved", at, "managed object [%d,+%d) (payload-relative) does not fit direct block [%d,+%d)", off, ln, b.off, b.size)
				return nil, false
			}
			return d.slice(b.addr+hdr+(off-b.off), ln), true
		}
		if off-b.off < hdr || off-b.off+ln > b.size {
			d.finding("heap-id-unresolved", at, "managed object [%d,+%d) does not fit the payload of direct block [%d,+%d)", off, ln, b.off, b.size)
			return nil, false
		}
		return d.slice(b.addr+(off-b.off), ln), true
	case 2: // tiny: the object is stored in the ID itself
		if h.idLen <= 17 {
			n := int(id[0]&0x0f) + 1
			if 1+n > len(id) {
				return nil, false
			}
			return id[1 : 1+n], true
		}
		if len(id) < 2 {
			return nil, false
		}
		n := (int(id[0]&0x0f)<<8 | int(id[1])) + 1
		if 2+n > len(id) {
			return nil, false
		}
		return id[2 : 2+n], true
	default:
		d.res.addLimitation("huge fractal heap objects not implemented")
		return nil, false
	}
}

// ---------------------------------------------------------------------------
// Version-2 B-tree.

type bt2 struct {
	typ      uint8
	nodeSize uint64
	recSize  int
	depth    int
	records  [][]byte
	ok       bool
}

// btreeV2 reads all records of the version-2 B-tree whose header is at addr, in
// key order.
func (d *decoder) btreeV2(addr uint64, owner string) *bt2 {
	t := &bt2{}
	c := &cur{b: d.tail(addr)}
	sig := c.bytes(4)
	if c.bad || string(sig) != "BTHD" {
		d.finding("bthd-signature", addr, "version-2 B-tree header does not start with \"BTHD\"")
		return t
	}
	if v := c.u8(); v != 0 {
		d.finding("bthd-version", addr, "version-2 B-tree header version %d", v)
	}
	t.typ = c.u8()
	t.nodeSize = uint64(c.u32())
	t.recSize = int(c.u16())
	t.depth = int(c.u16())
	c.u8() // split percent
	c.u8() // merge percent
	root, rootOK := d.addr(c)
	rootN := int(c.u16())
	total := d.length(c)
	sumAt := c.p
	stored := c.u32()
	if c.bad {
		d.finding("out-of-bounds", addr, "version-2 B-tree header truncated")
		return t
	}
	d.extent(addr, uint64(c.p), "bthd", owner)
	if got := Lookup3(c.b[:sumAt], 0); got != stored {
		d.finding("bthd-checksum", addr, "%s", checksumNote(c.b[:sumAt], stored, got))
	}
	if t.recSize == 0 || t.nodeSize < 16 || uint64(t.recSize) > t.nodeSize-10 || t.depth > 32 {
		d.finding("bthd-parameters", addr, "node size %d, record size %d, depth %d", t.nodeSize, t.recSize, t.depth)
		return t
	}
	t.ok = true
	if !rootOK {
		if total != 0 {
			d.finding("bthd-record-count", addr, "header counts %d records but the root node address is undefined", total)
		}
		return t
	}
	// Per-level sizes (see the "Version 2 B-tree Internal Node" layout): the
	// number-of-records field is wide enough for the maximum a LEAF can hold;
	// the total-records field is wide enough for the cumulative maximum of the
	// child's subtree.
	maxNrec := make([]uint64, t.depth+1)
	cumMax := make([]uint64, t.depth+1)
	cumSize := make([]int, t.depth+1)
	maxNrec[0] = (t.nodeSize - 10) / uint64(t.recSize)
	cumMax[0] = maxNrec[0]
	nrecSize := limitEncSize(maxNrec[0])
	for u := 1; u <= t.depth; u++ {
		ptr := uint64(d.O + nrecSize + cumSize[u-1])
		if t.nodeSize < 10+ptr {
			d.finding("bthd-parameters", addr, "node size %d cannot hold an internal node at depth %d", t.nodeSize, u)
			t.ok = false
			return t
		}
		maxNrec[u] = (t.nodeSize - 10 - ptr) / (uint64(t.recSize) + ptr)
		cm, ok1 := mulOK(maxNrec[u]+1, cumMax[u-1])
		cm, ok2 := addOK(cm, maxNrec[u])
		if !ok1 || !ok2 {
			cm = ^uint64(0)
		}
		cumMax[u] = cm
		cumSize[u] = limitEncSize(cm)
	}
	visited := map[uint64]bool{}
	var walk func(a uint64, n int, depth int) uint64
	walk = func(a uint64, n int, depth int) uint64 {
		if visited[a] {
			d.finding("btree-cycle", a, "version-2 B-tree node reached twice")
			return 0
		}
		visited[a] = true
		if len(t.records) > 1<<22 {
			return 0
		}
		kind, sigWant := "btlf", "BTLF"
		if depth > 0 {
			kind, sigWant = "btin", "BTIN"
		}
		d.extent(a, t.nodeSize, kind, owner)
		nc := &cur{b: d.tail(a)}
		if uint64(len(nc.b)) > t.nodeSize {
			nc.b = nc.b[:t.nodeSize]
		}
		if string(nc.bytes(4)) != sigWant {
			d.finding(kind+"-signature", a, "version-2 B-tree node at depth %d does not start with %q", depth, sigWant)
			return 0
		}
		if v := nc.u8(); v != 0 {
			d.finding(kind+"-version", a, "node version %d", v)
		}
		if ty := nc.u8(); ty != t.typ {
			d.finding(kind+"-type", a, "node type %d, header type %d", ty, t.typ)
		}
		if uint64(n) > maxNrec[depth] {
			d.finding(kind+"-record-count", a, "node holds %d records, at most %d fit", n, maxNrec[depth])
		}
		recs := make([][]byte, 0, n)
		for i := 0; i < n; i++ {
			recs = append(recs, nc.bytes(t.recSize))
		}
		type kid struct {
			a    uint64
			n    int
			tot  uint64
			good bool
		}
		var kids []kid
		if depth > 0 {
			for i := 0; i <= n; i++ {
				ka, def := d.addr(nc)
				kn := int(nc.uN(nrecSize))
				var tot uint64
				if depth > 1 {
					tot = nc.uN(cumSize[depth-1])
				}
				kids = append(kids, kid{ka, kn, tot, def})
			}
		}
		sumAt := nc.p
		stored := nc.u32()
		if nc.bad {
			d.finding("out-of-bounds", a, "version-2 B-tree node with %d records does not fit node size %d / the file", n, t.nodeSize)
			return 0
		}
		if got := Lookup3(nc.b[:sumAt], 0); got != stored {
			d.finding(kind+"-checksum", a, "%s", checksumNote(nc.b[:sumAt], stored, got))
		}
		if depth == 0 {
			t.records = append(t.records, recs...)
			return uint64(n)
		}
		count := uint64(n)
		for i, k := range kids {
			if !k.good {
				d.finding("btin-child-undefined", a, "child %d has an undefined address", i)
			} else {
				got := walk(k.a, k.n, depth-1)
				if depth > 1 && got != k.tot {
					d.finding("btin-total-records", a, "child %d subtree holds %d records, pointer says %d", i, got, k.tot)
				}
				count += got
			}
			if i < n {
				t.records = append(t.records, recs[i])
			}
		}
		return count
	}
	got := walk(root, rootN, t.depth)
	if got != total {
		d.finding("bthd-record-count", addr, "header counts %d records, tree holds %d", total, got)
	}
	return t
}

// ---------------------------------------------------------------------------
// Dense storage.

// readDenseLinks reads the links of a new-style group with dense storage via
// the name index (B-tree type 5).
func (d *decoder) readDenseLinks(li *linkInfo, owner string) []Link {
	h := d.fractalHeapAt(li.heap, owner)
	if !li.btOK {
		return nil
	}
	t := d.btreeV2(li.nameBT, owner)
	if !t.ok {
		return nil
	}
	if t.typ != 5 {
		d.finding("btree-v2-type", li.nameBT, "link name index has B-tree type %d, expected 5", t.typ)
		return nil
	}
	var out []Link
	var prev uint32
	var ids [][]byte
	for _, r := range t.records {
		if len(r) > 4 {
			ids = append(ids, r[4:])
		}
	}
	d.fhDecideOffsets(h, ids, li.heap)
	{
		var hs []uint32
		var hids [][]byte
		for _, r := range t.records {
			if len(r) > 4 {
				hs = append(hs, (&cur{b: r}).u32())
				hids = append(hids, r[4:])
			}
		}
		d.fhDecideByHash(h, hids, hs, func(obj []byte) (string, bool) {
			if l, ok := d.parseLink(obj, li.heap); ok {
				return l.Name, true
			}
			if al, ok := altDenseLink(obj, d); ok {
				return al.Name, true
			}
			return "", false
		}, li.heap)
	}
	for i, r := range t.records {
		c := &cur{b: r}
		hash := c.u32()
		id := c.bytes(len(r) - 4)
		if c.bad {
			continue
		}
		if i > 0 && hash < prev {
			d.finding("btree-v2-order", li.nameBT, "link name index records are not sorted by hash (record %d)", i)
		}
		prev = hash
		obj, ok := d.fhObject(h, id, li.nameBT)
		if !ok {
			continue
		}
		var l Link
		specOK := d.trial(func() bool {
			var ok bool
			l, ok = d.parseLink(obj, li.heap)
			return ok && Lookup3([]byte(l.Name), 0) == hash
		})
		if !specOK {
			// The record's name hash lets us recognise a non-standard encoding
			// seen in the wild: {version, link type, flags, character set,
			// 1-byte name length, name, value}.
			if al, ok := altDenseLink(obj, d); ok && Lookup3([]byte(al.Name), 0) == hash {
				d.finding("link-message-layout", li.heap, "dense link %q is encoded as {version, type, flags, charset, length, name, address}; the specification's link message is {version, flags, [type], [creation order], [charset], length, name, value}", al.Name)
				out = append(out, al)
				continue
			}
			var ok bool
			if l, ok = d.parseLink(obj, li.heap); !ok {
				continue
			}
		}
		if got := Lookup3([]byte(l.Name), 0); got != hash {
			d.finding("btree-v2-hash", li.nameBT, "record for link %q stores hash %#08x, lookup3 of the name is %#08x", l.Name, hash, got)
		}
		out = append(out, l)
	}
	if h.ok && uint64(len(t.records)) != h.nObjects {
		d.finding("frhp-object-count", li.heap, "heap header counts %d objects, name index has %d records", h.nObjects, len(t.records))
	}
	return out
}

// altDenseLink decodes the non-standard hard-link encoding described in readDenseLinks.
func altDenseLink(b []byte, d *decoder) (Link, bool) {
	c := &cur{b: b}
	ver, typ := c.u8(), c.u8()
	c.u8() // flags
	c.u8() // character set
	n := int(c.u8())
	name := c.bytes(n)
	a, def := d.addr(c)
	if c.bad || ver != 1 || typ != 0 || !def || n == 0 {
		return Link{}, false
	}
	return Link{Name: string(name), Kind: "hard", Addr: a}, true
}

// readDenseAttrs reads densely stored attributes via the name index (B-tree type 8).
func (d *decoder) readDenseAttrs(ai *attrInfo, owner string) []Attr {
	h := d.fractalHeapAt(ai.heap, owner)
	if !ai.btOK {
		return nil
	}
	t := d.btreeV2(ai.nameBT, owner)
	if !t.ok {
		return nil
	}
	if t.typ != 8 && t.typ != 5 {
		d.finding("btree-v2-type", ai.nameBT, "attribute name index has B-tree type %d, expected 8", t.typ)
		return nil
	}
	if t.typ == 5 {
		d.finding("btree-v2-type", ai.nameBT, "attribute name index has B-tree type 5 (link name records: hash + heap ID); the specification requires type 8 (heap ID, message flags, creation order, hash); decoded as type 5")
	}
	var ids [][]byte
	for _, r := range t.records {
		switch {
		case t.typ == 8 && len(r) >= 8:
			ids = append(ids, r[:8])
		case t.typ == 5 && len(r) > 4:
			ids = append(ids, r[4:])
		}
	}
	d.fhDecideOffsets(h, ids, ai.heap)
	{
		var hs []uint32
		var hids [][]byte
		for _, r := range t.records {
			switch {
			case t.typ == 8 && len(r) >= 17:
				hids = append(hids, r[:8])
				hs = append(hs, (&cur{b: r[13:]}).u32())
			case t.typ == 5 && len(r) > 4:
				hids = append(hids, r[4:])
				hs = append(hs, (&cur{b: r}).u32())
			}
		}
		d.fhDecideByHash(h, hids, hs, func(obj []byte) (string, bool) {
			a, ok := d.parseAttribute(obj, ai.heap, owner)
			return a.Name, ok
		}, ai.heap)
	}
	var out []Attr
	var prev uint32
	for i, r := range t.records {
		c := &cur{b: r}
		var id []byte
		var mflags uint8
		var hash uint32
		if t.typ == 8 {
			id = c.bytes(8)
			mflags = c.u8()
			c.u32() // creation order
			hash = c.u32()
		} else {
			hash = c.u32()
			id = c.bytes(len(r) - 4)
		}
		if c.bad {
			d.finding("btree-v2-record-size", ai.nameBT, "type-%d record of %d bytes is too short", t.typ, len(r))
			break
		}
		if i > 0 && hash < prev {
			d.finding("btree-v2-order", ai.nameBT, "attribute name index records are not sorted by hash (record %d)", i)
		}
		prev = hash
		obj, ok := d.fhObject(h, id, ai.nameBT)
		if !ok {
			continue
		}
		if mflags&0x02 != 0 {
			var ok bool
			if obj, _, ok = d.resolveShared(msgAttribute, obj, ai.heap, 0); !ok {
				continue
			}
		}
		a, ok := d.parseAttribute(obj, ai.heap, owner)
		if !ok {
			continue
		}
		if got := Lookup3([]byte(a.Name), 0); got != hash {
			d.finding("btree-v2-hash", ai.nameBT, "record for attribute %q stores hash %#08x, lookup3 of the name is %#08x", a.Name, hash, got)
		}
		out = append(out, a)
	}
	if h.ok && uint64(len(t.records)) != h.nObjects {
		d.finding("frhp-object-count", ai.heap, "heap header counts %d objects, attribute name index has %d records", h.nObjects, len(t.records))
	}
	return out
}
