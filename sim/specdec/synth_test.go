package specdec

// Synthetic images built by hand from the specification. They exercise structures
// that neither the corpus nor the library under test produce (version-2 B-tree
// internal nodes, a root indirect block with several direct blocks) and serve as
// seeds for the mutation test.

import (
	"encoding/binary"
	"fmt"
	"math/rand"
	"os"
	"sort"
	"strconv"
	"strings"
	"testing"
	"time"
)

type img struct{ b []byte }

func (m *img) grow(n int) {
	if n > len(m.b) {
		m.b = append(m.b, make([]byte, n-len(m.b))...)
	}
}
func (m *img) put(at int, p []byte) { m.grow(at + len(p)); copy(m.b[at:], p) }
func (m *img) u16(at int, v uint16) {
	m.grow(at + 2)
	binary.LittleEndian.PutUint16(m.b[at:], v)
}
func (m *img) u32(at int, v uint32) {
	m.grow(at + 4)
	binary.LittleEndian.PutUint32(m.b[at:], v)
}
func (m *img) u64(at int, v uint64) {
	m.grow(at + 8)
	binary.LittleEndian.PutUint64(m.b[at:], v)
}

// sum stores the lookup3 checksum of [from,to) at to.
func (m *img) sum(from, to int) { m.u32(to, Lookup3(m.b[from:to], 0)) }

// buildDenseGroupImage returns a file whose root group stores nLinks links densely:
// fractal heap with a 1-row root indirect block (4 direct blocks of 128 bytes,
// checksummed) and a depth-1 version-2 B-tree (node size 64: 4 records per leaf).
// All links are hard links back to the root group.
func buildDenseGroupImage(nLinks int) []byte {
	const (
		ohdr   = 48
		frhp   = 128
		fhib   = 320
		dblk0  = 512 // 4 x 256
		bthd   = 1536
		btin   = 1600
		leaf0  = 1664 // leaves follow, 64 bytes each
		nodeSz = 64
		dbSize = 128
	)
	m := &img{}
	// --- heap objects: link messages
	type rec struct {
		hash uint32
		id   [7]byte
	}
	var recs []rec
	dbHdr := 5 + 8 + 2 + 4 // signature, version, heap address, 2-byte block offset, checksum
	blk, pos := 0, dbHdr
	for i := 0; i < nLinks; i++ {
		name := fmt.Sprintf("link_%02d", i)
		msg := []byte{1, 0, byte(len(name))}
		msg = append(msg, name...)
		msg = binary.LittleEndian.AppendUint64(msg, ohdr)
		if pos+len(msg) > dbSize {
			blk, pos = blk+1, dbHdr
		}
		m.put(dblk0+blk*dbSize+pos, msg)
		heapOff := blk*dbSize + pos
		var r rec
		r.hash = Lookup3([]byte(name), 0)
		r.id[0] = 0 // version 0, managed
		binary.LittleEndian.PutUint16(r.id[1:], uint16(heapOff))
		r.id[3] = byte(len(msg)) // length: 1 byte (max direct block size 128 -> floor(log2)/8+1 = 1)
		recs = append(recs, r)
		pos += len(msg)
	}
	nblk := blk + 1
	for b := 0; b < nblk; b++ {
		at := dblk0 + b*dbSize
		m.grow(at + dbSize)
		m.put(at, []byte("FHDB\x00"))
		m.u64(at+5, frhp)
		m.u16(at+13, uint16(b*dbSize))
		m.u32(at+15, 0)
		m.u32(at+15, Lookup3(m.b[at:at+dbSize], 0))
	}
	// --- indirect block: 1 row x 4 entries
	m.put(fhib, []byte("FHIB\x00"))
	m.u64(fhib+5, frhp)
	m.u16(fhib+13, 0)
	for e := 0; e < 4; e++ {
		a := ^uint64(0)
		if e < nblk {
			a = uint64(dblk0 + e*dbSize)
		}
		m.u64(fhib+15+8*e, a)
	}
	m.sum(fhib, fhib+15+32)
	// --- heap header
	p := frhp
	m.put(p, []byte("FRHP\x00"))
	m.u16(p+5, 7)    // heap ID length
	m.u16(p+7, 0)    // I/O filter length
	m.b[p+9] = 0x02  // direct blocks are checksummed
	m.u32(p+10, 128) // max managed object size
	p += 14
	m.u64(p, 0)            // next huge ID
	m.u64(p+8, ^uint64(0)) // huge B-tree
	m.u64(p+16, 0)         // free space
	m.u64(p+24, ^uint64(0))
	m.u64(p+32, uint64(nblk*dbSize)) // managed space
	m.u64(p+40, uint64(nblk*dbSize)) // allocated
	m.u64(p+48, uint64(nblk*dbSize)) // iterator offset
	m.u64(p+56, uint64(nLinks))      // managed objects
	p += 64 + 32                     // + huge size/count, tiny size/count
	m.u16(p, 4)                      // table width
	m.u64(p+2, dbSize)               // starting block size
	m.u64(p+10, dbSize)              // max direct block size
	m.u16(p+18, 16)                  // max heap size (bits)
	m.u16(p+20, 1)                   // starting rows
	m.u64(p+22, fhib)
	m.u16(p+30, 1) // current rows
	m.sum(frhp, p+32)
	// --- B-tree: sorted records, leaves of up to 4, one internal root
	sort.Slice(recs, func(i, j int) bool { return recs[i].hash < recs[j].hash })
	// distribute: leaf, separator, leaf, separator, ...
	var leaves [][]rec
	var seps []rec
	for i := 0; i < len(recs); {
		n := 3
		if len(recs)-i < n {
			n = len(recs) - i
		}
		leaves = append(leaves, recs[i:i+n])
		i += n
		if i < len(recs)-0 && i+1 <= len(recs)-1 {
			seps = append(seps, recs[i])
			i++
		}
	}
	putRec := func(at int, r rec) { m.u32(at, r.hash); m.put(at+4, r.id[:]) }
	for li, l := range leaves {
		at := leaf0 + li*nodeSz
		m.grow(at + nodeSz)
		m.put(at, []byte("BTLF\x00\x05"))
		for i, r := range l {
			putRec(at+6+11*i, r)
		}
		m.sum(at, at+6+11*len(l))
	}
	m.grow(btin + nodeSz)
	m.put(btin, []byte("BTIN\x00\x05"))
	for i, r := range seps {
		putRec(btin+6+11*i, r)
	}
	q := btin + 6 + 11*len(seps)
	for li, l := range leaves {
		m.u64(q, uint64(leaf0+li*nodeSz))
		m.b[q+8] = byte(len(l)) // number of records: 1 byte (max 4 per leaf)
		q += 9
	}
	m.sum(btin, q)
	m.put(bthd, []byte("BTHD\x00\x05"))
	m.u32(bthd+6, nodeSz)
	m.u16(bthd+10, 11)
	m.u16(bthd+12, 1) // depth
	m.b[bthd+14], m.b[bthd+15] = 100, 40
	m.u64(bthd+16, btin)
	m.u16(bthd+24, uint16(len(seps)))
	m.u64(bthd+26, uint64(len(recs)))
	m.sum(bthd, bthd+34)
	// --- root object header: one Link Info message
	m.put(ohdr, []byte("OHDR\x02\x00"))
	m.b[ohdr+6] = 4 + 18
	m.put(ohdr+7, []byte{0x02, 18, 0, 0, 0, 0})
	m.u64(ohdr+13, frhp)
	m.u64(ohdr+21, bthd)
	m.sum(ohdr, ohdr+29)
	// --- superblock v2
	m.put(0, []byte("\x89HDF\r\n\x1a\n\x02\x08\x08\x00"))
	m.u64(12, 0)
	m.u64(20, ^uint64(0))
	m.u64(28, uint64(len(m.b)))
	m.u64(36, ohdr)
	m.sum(0, 44)
	return m.b
}

func TestSyntheticBtreeV2InternalNode(t *testing.T) {
	const n = 11
	b := buildDenseGroupImage(n)
	r := Decode(b)
	for _, f := range r.Findings {
		if strings.HasPrefix(f.Class, "refcount-link-count") {
			continue // the synthetic image links the root to itself n times without counting them
		}
		t.Errorf("finding %s @%#x: %s", f.Class, f.Addr, f.Detail)
	}
	root := r.Objects[r.RootAddr]
	if root == nil || root.LinkStorage != "dense" || len(root.Links) != n {
		t.Fatalf("root: %+v", root)
	}
	seen := map[string]bool{}
	for _, l := range root.Links {
		seen[l.Name] = true
		if l.Kind != "hard" || l.Addr != r.RootAddr {
			t.Errorf("link %+v", l)
		}
	}
	for i := 0; i < n; i++ {
		if !seen[fmt.Sprintf("link_%02d", i)] {
			t.Errorf("link_%02d missing", i)
		}
	}
	kinds := map[string]int{}
	for _, e := range r.Extents {
		kinds[e.Kind]++
	}
	if kinds["btin"] != 1 || kinds["btlf"] < 2 || kinds["fhib"] != 1 || kinds["fhdb"] < 2 {
		t.Errorf("extent kinds %v", kinds)
	}
	// Walk must terminate on the self-referencing links and report each once.
	visits := 0
	r.Walk(func(string, *Object, *Link) { visits++ })
	if visits != n+1 {
		t.Errorf("Walk visited %d paths, want %d", visits, n+1)
	}
}

// TestMutations flips bytes in / truncates small images and requires that Decode
// neither panics nor hangs.
func TestMutations(t *testing.T) {
	seeds := [][]byte{buildDenseGroupImage(11)}
	seeds = append(seeds, libSeedImages(t)...)
	for _, p := range corpusFiles(t) {
		if fi, err := os.Stat(p); err == nil && fi.Size() < 24<<10 && len(seeds) < 70 {
			if b, err := os.ReadFile(p); err == nil {
				seeds = append(seeds, b)
			}
		}
	}
	// SPECDEC_FUZZ_SECONDS=n runs a longer, differently seeded campaign.
	seed, budget, rounds := int64(1), 20*time.Second, 400
	if v, err := strconv.Atoi(os.Getenv("SPECDEC_FUZZ_SECONDS")); err == nil && v > 0 {
		seed, budget, rounds = time.Now().UnixNano(), time.Duration(v)*time.Second, 1<<30
	}
	rng := rand.New(rand.NewSource(seed))
	deadline := time.Now().Add(budget)
	runs := 0
	for round := 0; round < rounds && time.Now().Before(deadline); round++ {
		for _, s := range seeds {
			b := append([]byte(nil), s...)
			switch rng.Intn(4) {
			case 0:
				b = b[:rng.Intn(len(b)+1)]
			default:
				for k := 0; k < 1+rng.Intn(6) && len(b) > 0; k++ {
					i := rng.Intn(len(b))
					switch rng.Intn(3) {
					case 0:
						b[i] = byte(rng.Intn(256))
					case 1:
						b[i] = 0xff
					case 2:
						b[i] ^= 1 << uint(rng.Intn(8))
					}
				}
			}
			start := time.Now()
			r := Decode(b)
			if r.HasFinding("decoder-panic") {
				for _, f := range r.Findings {
					if f.Class == "decoder-panic" {
						t.Fatalf("panic on mutated image (round %d): %s", round, f.Detail)
					}
				}
			}
			if el := time.Since(start); el > 5*time.Second {
				os.WriteFile("/tmp/slow.h5", b, 0o644)
				t.Fatalf("mutated image took %v", el)
			}
			runs++
		}
	}
	t.Logf("%d mutated images decoded from %d seeds", runs, len(seeds))
}
