package specdec

// Old-style groups: version-1 B-tree (node type 0), symbol table nodes and the
// local heap that holds the link names (specification sections III.A.1, III.B,
// III.C, III.D).

type localHeap struct {
	ok       bool
	dataAddr uint64
	dataSize uint64
	data     []byte // the part of the data segment that lies inside the file
}

// localHeapAt parses (once) the local heap whose header is at addr.
func (d *decoder) localHeapAt(addr uint64, owner string) *localHeap {
	if h, ok := d.lheaps[addr]; ok {
		return h
	}
	h := &localHeap{}
	d.lheaps[addr] = h
	c := &cur{b: d.tail(addr)}
	sig := c.bytes(4)
	if c.bad || string(sig) != "HEAP" {
		d.finding("local-heap-signature", addr, "local heap header does not start with \"HEAP\"")
		return h
	}
	if v := c.u8(); v != 0 {
		d.finding("local-heap-version", addr, "local heap version %d", v)
	}
	c.skip(3)
	h.dataSize = d.length(c)
	freeHead := d.length(c)
	da, def := d.addr(c)
	if c.bad {
		d.finding("out-of-bounds", addr, "local heap header truncated")
		return h
	}
	d.extent(addr, uint64(c.p), "local-heap-hdr", owner)
	if !def {
		d.finding("local-heap-data-address", addr, "local heap data segment address is undefined")
		return h
	}
	h.dataAddr = da
	d.extent(da, h.dataSize, "local-heap-data", owner)
	h.data = d.slice(da, h.dataSize)
	if h.data == nil {
		d.finding("out-of-bounds", da, "local heap data segment of %d bytes runs past the end of the file", h.dataSize)
		h.data = d.tail(da)
	}
	// Free list: each free block holds (next offset, size); the list ends with
	// the undefined length value (or, in files from old writers, 1).
	lundef := ^uint64(0)
	if d.L < 8 {
		lundef = (uint64(1) << (8 * uint(d.L))) - 1
	}
	steps := 0
	for off := freeHead; off != lundef && off != 1; steps++ {
		if steps > 1<<16 {
			d.finding("local-heap-free-list", addr, "free list does not terminate")
			break
		}
		if off+uint64(2*d.L) > h.dataSize || off+uint64(2*d.L) > uint64(len(h.data)) {
			d.finding("local-heap-free-list", addr, "free block offset %d outside data segment of %d bytes", off, h.dataSize)
			break
		}
		fc := &cur{b: h.data[off:]}
		next := d.length(fc)
		size := d.length(fc)
		if size < uint64(2*d.L) || off+size > h.dataSize {
			d.finding("local-heap-free-list", addr, "free block at %d has size %d (segment %d)", off, size, h.dataSize)
			break
		}
		off = next
	}
	h.ok = true
	return h
}

// str returns the NUL-terminated string at offset off of the data segment.
func (d *decoder) heapString(h *localHeap, off uint64, at uint64, what string) (string, bool) {
	if h == nil || !h.ok {
		return "", false
	}
	if off >= uint64(len(h.data)) {
		d.finding("heap-offset-out-of-range", at, "%s offset %d outside local heap data segment of %d bytes", what, off, len(h.data))
		return "", false
	}
	b := h.data[off:]
	for i, ch := range b {
		if ch == 0 {
			return string(b[:i]), true
		}
	}
	d.finding("heap-string-unterminated", at, "%s at heap offset %d has no terminator inside the data segment", what, off)
	return string(b), false
}

// readSymbolTable returns the links of an old-style group in B-tree order.
func (d *decoder) readSymbolTable(btree, heap uint64, owner string) []Link {
	h := d.localHeapAt(heap, owner)
	var links []Link
	visited := map[uint64]bool{}
	d.walkGroupBtree(btree, h, owner, 0, -1, visited, &links)
	return links
}

// btreeV1Header parses the common prefix of a version-1 B-tree node.
func (d *decoder) btreeV1Header(addr uint64, wantType uint8) (c *cur, level, used int, ok bool) {
	c = &cur{b: d.tail(addr)}
	sig := c.bytes(4)
	if c.bad || string(sig) != "TREE" {
		d.finding("btree-signature", addr, "version-1 B-tree node does not start with \"TREE\"")
		return nil, 0, 0, false
	}
	typ := c.u8()
	level = int(c.u8())
	used = int(c.u16())
	c.uN(d.O) // left sibling
	c.uN(d.O) // right sibling
	if c.bad {
		d.finding("out-of-bounds", addr, "version-1 B-tree node header truncated")
		return nil, 0, 0, false
	}
	if typ != wantType {
		d.finding("btree-node-type", addr, "version-1 B-tree node type %d, expected %d", typ, wantType)
		return nil, 0, 0, false
	}
	return c, level, used, true
}

// recordBtreeV1Extent records the in-use part of a node as an extent and the
// specification-sized node (2K entries) for the short-allocation check.
func (d *decoder) recordBtreeV1Extent(addr uint64, kind, owner string, used, k, keySize int) {
	hdr := 8 + 2*d.O
	usedSize := uint64(hdr + used*(keySize+d.O) + keySize)
	fullSize := uint64(hdr + 2*k*(keySize+d.O) + keySize)
	if used > 2*k {
		d.finding("btree-entries-exceed-2k", addr, "%s node uses %d entries, 2K is %d", kind, used, 2*k)
		fullSize = usedSize
	}
	d.extent(addr, usedSize, kind, owner)
	d.res.fullNodes = append(d.res.fullNodes, Extent{Start: addr, End: addr + fullSize, Kind: kind, Owner: owner})
}

func (d *decoder) walkGroupBtree(addr uint64, h *localHeap, owner string, depth, wantLevel int, visited map[uint64]bool, out *[]Link) {
	if depth > maxDepth || visited[addr] {
		d.finding("btree-cycle", addr, "version-1 group B-tree node reached twice or nesting too deep")
		return
	}
	visited[addr] = true
	c, level, used, ok := d.btreeV1Header(addr, 0)
	if !ok {
		return
	}
	d.recordBtreeV1Extent(addr, "btree-v1-group", owner, used, d.groupIntK, d.L)
	if wantLevel >= 0 && level != wantLevel {
		d.finding("btree-level", addr, "node level %d, parent implies %d", level, wantLevel)
	}
	if used > 1<<16 {
		used = 1 << 16
	}
	prevKey := uint64(0)
	for i := 0; i < used; i++ {
		key := d.length(c)
		child, def := d.addr(c)
		if c.bad {
			d.finding("out-of-bounds", addr, "version-1 group B-tree node with %d entries runs past the end of the file", used)
			return
		}
		_ = key
		_ = prevKey
		if !def {
			d.finding("btree-child-undefined", addr, "child %d has an undefined address", i)
			continue
		}
		if level > 0 {
			d.walkGroupBtree(child, h, owner, depth+1, level-1, visited, out)
		} else {
			d.readSnod(child, h, owner, visited, out)
		}
	}
	d.length(c) // final key
	if c.bad {
		d.finding("out-of-bounds", addr, "version-1 group B-tree node with %d entries runs past the end of the file", used)
	}
}

// readSnod decodes one symbol table node.
func (d *decoder) readSnod(addr uint64, h *localHeap, owner string, visited map[uint64]bool, out *[]Link) {
	if visited[addr] {
		d.finding("btree-cycle", addr, "symbol table node reached twice")
		return
	}
	visited[addr] = true
	c := &cur{b: d.tail(addr)}
	sig := c.bytes(4)
	if c.bad || string(sig) != "SNOD" {
		d.finding("snod-signature", addr, "symbol table node does not start with \"SNOD\"")
		return
	}
	if v := c.u8(); v != 1 {
		d.finding("snod-version", addr, "symbol table node version %d", v)
	}
	c.u8()
	n := int(c.u16())
	entrySize := 2*d.O + 4 + 4 + 16
	// A node is always allocated for 2K entries.
	slots := 2 * d.groupLeafK
	if n > slots {
		d.finding("snod-entries-exceed-2k", addr, "symbol table node holds %d symbols, 2K is %d (group leaf node K = %d)", n, slots, d.groupLeafK)
		slots = n
	}
	d.extent(addr, uint64(8+slots*entrySize), "snod", owner)
	for i := 0; i < n; i++ {
		nameOff := c.uN(d.O)
		oa, def := d.addr(c)
		cacheType := c.u32()
		c.u32()
		scratch := c.bytes(16)
		if c.bad {
			d.finding("out-of-bounds", addr, "symbol table node with %d symbols runs past the end of the file", n)
			return
		}
		at := addr + uint64(8+i*entrySize)
		name, _ := d.heapString(h, nameOff, at, "link name")
		if name == "" {
			d.finding("link-name-missing", at, "symbol table entry %d has an empty or unreadable name (heap offset %d)", i, nameOff)
		}
		l := Link{Name: name}
		switch cacheType {
		case 0, 1:
			l.Kind = "hard"
			if !def {
				d.finding("link-address-undefined", at, "symbol table entry %q has an undefined object header address", name)
				continue
			}
			l.Addr = oa
		case 2:
			l.Kind = "soft"
			off := uint64((&cur{b: scratch}).u32())
			l.Target, _ = d.heapString(h, off, at, "soft link value")
		default:
			d.finding("symbol-entry-cache-type", at, "symbol table entry %q has cache type %d", name, cacheType)
			continue
		}
		*out = append(*out, l)
	}
}
