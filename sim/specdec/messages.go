package specdec

// Decoders for the individual header messages (specification section IV.A.2).

type dataspace struct {
	version int
	rank    int
	dims    []uint64
	maxDims []uint64
	null    bool
	scalar  bool
}

// numElements returns the number of elements selected by the dataspace extent.
func (s *dataspace) numElements() (uint64, bool) {
	if s.null {
		return 0, true
	}
	n := uint64(1)
	for _, v := range s.dims {
		var ok bool
		if n, ok = mulOK(n, v); !ok {
			return 0, false
		}
	}
	return n, true
}

func (d *decoder) parseDataspace(b []byte, at uint64) (*dataspace, bool) {
	c := &cur{b: b}
	s := &dataspace{}
	s.version = int(c.u8())
	s.rank = int(c.u8())
	flags := c.u8()
	switch s.version {
	case 1:
		c.u8()  // reserved
		c.u32() // reserved
		s.scalar = s.rank == 0
	case 2:
		typ := c.u8()
		switch typ {
		case 0:
			s.scalar = true
		case 1:
		case 2:
			s.null = true
		default:
			d.finding("dataspace-type", at, "dataspace type %d", typ)
		}
		if typ == 0 && s.rank != 0 {
			d.finding("dataspace-type", at, "scalar dataspace with rank %d", s.rank)
		}
	default:
		d.finding("dataspace-version", at, "dataspace message version %d", s.version)
		return nil, false
	}
	if s.rank > 32 {
		d.finding("dataspace-rank", at, "rank %d exceeds the maximum of 32", s.rank)
		return nil, false
	}
	s.dims = make([]uint64, s.rank)
	for i := range s.dims {
		s.dims[i] = d.length(c)
	}
	if flags&1 != 0 {
		s.maxDims = make([]uint64, s.rank)
		for i := range s.maxDims {
			s.maxDims[i] = d.length(c)
		}
	}
	if flags&2 != 0 && s.version == 1 {
		for i := 0; i < s.rank; i++ {
			d.length(c) // permutation indices (never implemented by the reference library)
		}
	}
	if c.bad {
		d.finding("dataspace-truncated", at, "dataspace message (rank %d, flags %#x) is longer than its %d bytes", s.rank, flags, len(b))
		return nil, false
	}
	if s.maxDims != nil {
		for i := range s.dims {
			if s.maxDims[i] < s.dims[i] {
				d.finding("dataspace-maxdims", at, "dimension %d: maximum size %d is smaller than current size %d", i, s.maxDims[i], s.dims[i])
			}
		}
	}
	return s, true
}

// parseDatatype decodes one datatype message starting at b[0] and returns the
// number of bytes it occupies (needed for members nested in compound, enum,
// array and variable-length types).
func (d *decoder) parseDatatype(b []byte, at uint64, depth int) (*Datatype, int, bool) {
	if depth > 32 {
		d.finding("datatype-nesting", at, "datatype nested deeper than 32 levels")
		return nil, 0, false
	}
	c := &cur{b: b}
	cv := c.u8()
	bits := uint32(c.u8()) | uint32(c.u8())<<8 | uint32(c.u8())<<16
	t := &Datatype{Class: int(cv & 0x0f), Version: int(cv >> 4), BitField: bits}
	t.Size = c.u32()
	if c.bad {
		d.finding("datatype-truncated", at, "datatype message shorter than its 8-byte header")
		return nil, 0, false
	}
	if t.Version < 1 || t.Version > 5 {
		// The specification puts the class in the LOW nibble and the version in
		// the high nibble. If that reading is impossible but the swapped one
		// names a defined class, decode the swapped one and say so.
		if sc, sv := int(cv>>4), int(cv&0x0f); sc <= 10 && sv <= 3 && t.Version > 5 {
			d.finding("datatype-class-version-swapped", at, "first byte %#02x reads as class %d version %d; decoded as class %d version %d (nibbles swapped)", cv, t.Class, t.Version, sc, sv)
			t.Class, t.Version = sc, sv
			if sv == 0 {
				d.finding("datatype-version", at, "datatype class %d has version 0 (specification defines 1-3)", sc)
				t.Version = 1
			}
		} else {
			d.finding("datatype-version", at, "datatype class %d has version %d (specification defines 1-3)", t.Class, t.Version)
			return nil, 0, false
		}
	}
	if t.Version >= 4 {
		d.res.addLimitation("datatype message versions 4 and 5 (post-3.0 specification) decoded as version 3")
	}
	switch t.Class {
	case 0: // fixed-point
		t.BigEndian = bits&1 != 0
		t.Signed = bits&8 != 0
		off, prec := c.u16(), c.u16()
		if !c.bad && (uint32(off)+uint32(prec) > t.Size*8 || prec == 0) {
			d.finding("datatype-precision", at, "fixed-point bit offset %d + precision %d does not fit %d bytes", off, prec, t.Size)
		}
	case 1: // floating-point
		t.BigEndian = bits&1 != 0
		off, prec := c.u16(), c.u16()
		c.skip(8) // exponent location/size, mantissa location/size, exponent bias
		if !c.bad && (uint32(off)+uint32(prec) > t.Size*8 || prec == 0) {
			d.finding("datatype-precision", at, "floating-point bit offset %d + precision %d does not fit %d bytes", off, prec, t.Size)
		}
	case 2: // time
		t.BigEndian = bits&1 != 0
		c.u16()
	case 3: // string: no properties
	case 4: // bit field
		t.BigEndian = bits&1 != 0
		c.u16()
		c.u16()
	case 5: // opaque: tag padded to a multiple of 8
		n := int(bits & 0xff)
		if n%8 != 0 {
			d.finding("datatype-opaque-tag", at, "opaque tag length %d is not a multiple of 8", n)
		}
		t.OpaqueTag = trimNul(c.bytes(n))
	case 6: // compound
		n := int(bits & 0xffff)
		for i := 0; i < n && !c.bad; i++ {
			start := c.p
			name, term := c.cstr()
			if !term {
				d.finding("datatype-member-name", at, "compound member %d name is not NUL-terminated", i)
				c.bad = true
				break
			}
			var m Member
			m.Name = name
			var dims []uint32
			switch {
			case t.Version >= 3:
				m.Offset = uint32(c.uN(limitEncSize(uint64(t.Size))))
			default:
				// name (with terminator) padded to a multiple of 8
				c.skip(pad8(c.p-start) - (c.p - start))
				m.Offset = c.u32()
				if t.Version == 1 {
					nd := int(c.u8())
					c.skip(3)
					c.u32() // dimension permutation
					c.u32() // reserved
					for k := 0; k < 4; k++ {
						v := c.u32()
						if k < nd {
							dims = append(dims, v)
						}
					}
				}
			}
			if c.bad {
				break
			}
			mt, used, ok := d.parseDatatype(c.b[c.p:], at+uint64(c.p), depth+1)
			if !ok {
				c.bad = true
				break
			}
			c.skip(used)
			if len(dims) > 0 {
				// version-1 members carry their own array dimensions
				sz := mt.Size
				for _, v := range dims {
					sz *= v
				}
				mt = &Datatype{Class: 10, Version: 1, Size: sz, Base: mt, ArrayDims: dims}
			}
			m.Type = mt
			if uint64(m.Offset)+uint64(mt.Size) > uint64(t.Size) {
				d.finding("datatype-member-range", at, "compound member %q at offset %d size %d exceeds compound size %d", m.Name, m.Offset, mt.Size, t.Size)
			}
			t.Members = append(t.Members, m)
		}
	case 7: // reference: no properties
	case 8: // enumeration
		n := int(bits & 0xffff)
		bt, used, ok := d.parseDatatype(c.b[min(c.p, len(c.b)):], at+uint64(c.p), depth+1)
		if !ok {
			return nil, 0, false
		}
		c.skip(used)
		t.Base = bt
		membersAt := c.p
		plausible := true
		for i := 0; i < n && !c.bad; i++ {
			start := c.p
			name, term := c.cstr()
			if !term {
				d.finding("datatype-member-name", at, "enumeration member %d name is not NUL-terminated", i)
				c.bad = true
				break
			}
			if t.Version < 3 {
				c.skip(pad8(c.p-start) - (c.p - start))
			}
			if name == "" {
				plausible = false
			}
			t.EnumNames = append(t.EnumNames, name)
		}
		for i := 0; i < n && !c.bad; i++ {
			t.EnumValues = append(t.EnumValues, c.bytes(int(bt.Size)))
		}
		if (c.bad || !plausible) && n > 0 {
			// Alternative seen in the wild: each member is {name padded to a
			// multiple of 8, value}, interleaved, whatever the version says.
			ac := &cur{b: c.b, p: membersAt}
			var names []string
			var vals [][]byte
			for i := 0; i < n && !ac.bad; i++ {
				start := ac.p
				name, term := ac.cstr()
				if !term || name == "" {
					ac.bad = true
					break
				}
				ac.skip(pad8(ac.p-start) - (ac.p - start))
				names = append(names, name)
				vals = append(vals, ac.bytes(int(bt.Size)))
			}
			if !ac.bad {
				d.finding("datatype-enum-layout", at, "version-%d enumeration stores members as interleaved {8-byte padded name, value} pairs; the specification stores all names (unpadded in version 3) followed by all values", t.Version)
				t.EnumNames, t.EnumValues = names, vals
				c.p, c.bad = ac.p, false
			}
		}
		if bt.Size != t.Size {
			d.finding("datatype-enum-size", at, "enumeration size %d differs from base type size %d", t.Size, bt.Size)
		}
	case 9: // variable-length
		t.VLenString = bits&0x0f == 1
		var bt *Datatype
		var used int
		ok := d.trial(func() bool {
			var ok bool
			bt, used, ok = d.parseDatatype(c.b[min(c.p, len(c.b)):], at+uint64(c.p), depth+1)
			return ok
		})
		if !ok && c.left() >= 12 {
			// Alternative seen in the wild: the type/padding/charset flags are
			// written as 4 extra bytes in front of the base type instead of in
			// the class bit field.
			extra := (&cur{b: c.b[c.p:]}).u32()
			if d.trial(func() bool {
				var ok bool
				bt, used, ok = d.parseDatatype(c.b[c.p+4:], at+uint64(c.p)+4, depth+1)
				return ok
			}) {
				d.finding("datatype-vlen-layout", at, "variable-length datatype has 4 extra bytes (%#x) between header and base type; the specification stores type/padding/character set in the class bit field (found %#x)", extra, bits)
				c.skip(4)
				if bits == 0 {
					t.BitField = extra & 0xffffff
					t.VLenString = extra&0x0f == 1
				}
				ok = true
			}
		}
		if !ok {
			d.finding("datatype-truncated", at, "variable-length datatype: base type cannot be decoded")
			return nil, 0, false
		}
		c.skip(used)
		t.Base = bt
		if want := uint32(4 + d.O + 4); t.Size != want {
			d.finding("datatype-vlen-size", at, "variable-length type size %d, expected %d (length + global heap id)", t.Size, want)
		}
	case 10: // array
		if t.Version < 2 {
			d.finding("datatype-version", at, "array datatype requires version >= 2, found %d", t.Version)
		}
		nd := int(c.u8())
		if t.Version < 3 {
			c.skip(3)
		}
		for i := 0; i < nd; i++ {
			t.ArrayDims = append(t.ArrayDims, c.u32())
		}
		if t.Version < 3 {
			c.skip(4 * nd) // permutation indices
		}
		if c.bad {
			break
		}
		bt, used, ok := d.parseDatatype(c.b[c.p:], at+uint64(c.p), depth+1)
		if !ok {
			return nil, 0, false
		}
		c.skip(used)
		t.Base = bt
		want := uint64(bt.Size)
		for _, v := range t.ArrayDims {
			want, _ = mulOK(want, uint64(v))
		}
		if want != uint64(t.Size) {
			d.finding("datatype-array-size", at, "array size %d differs from base size x dimensions = %d", t.Size, want)
		}
	case 11: // complex number (added after specification 3.0): properties are the base type
		d.res.addLimitation("complex datatype class 11 (post-3.0 specification) decoded as base type only")
		bt, used, ok := d.parseDatatype(c.b[min(c.p, len(c.b)):], at+uint64(c.p), depth+1)
		if !ok {
			return nil, 0, false
		}
		c.skip(used)
		t.Base = bt
	default:
		d.finding("datatype-class", at, "datatype class %d is not defined by the specification", t.Class)
		return nil, 0, false
	}
	if c.bad {
		d.finding("datatype-truncated", at, "datatype class %d version %d properties run past the end of the message", t.Class, t.Version)
		return nil, 0, false
	}
	return t, c.p, true
}

// layoutInfo is a decoded data layout message.
type layoutInfo struct {
	version        int
	class          int
	compact        []byte
	compactOff     uint64
	addr           uint64 // contiguous data / chunk index address
	addrOK         bool
	size           uint64 // contiguous: size stored in the message (v3+)
	haveSize       bool
	dimensionality int
	chunkDims      []uint32
	// version 4 chunk indexing
	v4flags   uint8
	indexType int
	scSize    uint64 // single-chunk: filtered size
	scMask    uint32
}

func (d *decoder) parseLayout(b []byte, at uint64) (*layoutInfo, bool) {
	c := &cur{b: b}
	l := &layoutInfo{}
	l.version = int(c.u8())
	switch l.version {
	case 1, 2:
		l.dimensionality = int(c.u8())
		l.class = int(c.u8())
		c.skip(5)
		if l.class != 0 {
			l.addr, l.addrOK = d.addr(c)
		}
		if l.dimensionality > 33 {
			d.finding("layout-dimensionality-range", at, "dimensionality %d", l.dimensionality)
			return nil, false
		}
		dims := make([]uint32, l.dimensionality)
		for i := range dims {
			dims[i] = c.u32()
		}
		switch l.class {
		case 2:
			l.chunkDims = dims
		case 0:
			n := int(c.u32())
			l.compactOff = at + uint64(c.p)
			l.compact = c.bytes(n)
		}
	case 3:
		l.class = int(c.u8())
		switch l.class {
		case 0:
			n := int(c.u16())
			l.compactOff = at + uint64(c.p)
			l.compact = c.bytes(n)
		case 1:
			l.addr, l.addrOK = d.addr(c)
			l.size, l.haveSize = d.length(c), true
		case 2:
			l.dimensionality = int(c.u8())
			l.addr, l.addrOK = d.addr(c)
			if l.dimensionality > 33 {
				d.finding("layout-dimensionality-range", at, "dimensionality %d", l.dimensionality)
				return nil, false
			}
			l.chunkDims = make([]uint32, l.dimensionality)
			for i := range l.chunkDims {
				l.chunkDims[i] = c.u32()
			}
		default:
			d.finding("layout-class", at, "layout class %d in a version-3 layout message", l.class)
			return nil, false
		}
	case 4:
		l.class = int(c.u8())
		switch l.class {
		case 0:
			n := int(c.u16())
			l.compactOff = at + uint64(c.p)
			l.compact = c.bytes(n)
		case 1:
			l.addr, l.addrOK = d.addr(c)
			l.size, l.haveSize = d.length(c), true
		case 2:
			l.v4flags = c.u8()
			l.dimensionality = int(c.u8())
			enc := int(c.u8())
			if l.dimensionality > 33 || enc < 1 || enc > 8 {
				d.finding("layout-dimensionality-range", at, "dimensionality %d, dimension size encoded length %d", l.dimensionality, enc)
				return nil, false
			}
			l.chunkDims = make([]uint32, l.dimensionality)
			for i := range l.chunkDims {
				l.chunkDims[i] = uint32(c.uN(enc))
			}
			l.indexType = int(c.u8())
			switch l.indexType {
			case 1: // single chunk
				if l.v4flags&0x02 != 0 {
					l.scSize = d.length(c)
					l.scMask = c.u32()
				}
			case 2: // implicit
			case 3: // fixed array
				c.u8() // page bits
			case 4: // extensible array
				c.skip(5)
			case 5: // version-2 B-tree
				c.skip(6)
			default:
				d.finding("layout-chunk-index-type", at, "chunk indexing type %d", l.indexType)
				return nil, false
			}
			l.addr, l.addrOK = d.addr(c)
		case 3:
			d.res.addLimitation("virtual dataset layout not implemented")
			return l, true
		default:
			d.finding("layout-class", at, "layout class %d", l.class)
			return nil, false
		}
	default:
		d.finding("layout-version", at, "data layout message version %d", l.version)
		return nil, false
	}
	if c.bad {
		d.finding("layout-truncated", at, "data layout message version %d class %d runs past its %d bytes", l.version, l.class, len(b))
		return nil, false
	}
	return l, true
}

var filterNames = map[uint16]string{1: "deflate", 2: "shuffle", 3: "fletcher32", 4: "szip", 5: "nbit", 6: "scaleoffset", 32000: "lzf"}

func (d *decoder) parseFilters(b []byte, at uint64) ([]Filter, bool) {
	c := &cur{b: b}
	ver := c.u8()
	n := int(c.u8())
	if ver != 1 && ver != 2 {
		d.finding("filter-pipeline-version", at, "filter pipeline message version %d", ver)
		return nil, false
	}
	if n > 32 {
		d.finding("filter-pipeline-count", at, "%d filters exceed the maximum of 32", n)
	}
	// style 1 / 2 are the two layouts of the specification. Style 3 is a
	// hybrid seen in the wild: version-1 framing (6 reserved bytes, name length
	// always present, name padded to 8 bytes) but with the UNPADDED length in
	// the name-length field and no padding after an odd number of client data
	// values. It is only tried when the declared layout yields nonsense.
	parse := func(style int) ([]Filter, bool) {
		c := &cur{b: b, p: 2}
		if style != 2 {
			c.skip(6)
		}
		var out []Filter
		for i := 0; i < n && !c.bad; i++ {
			var f Filter
			f.ID = c.u16()
			nameLen := 0
			if style != 2 || f.ID >= 256 {
				nameLen = int(c.u16())
			}
			f.Flags = c.u16()
			nv := int(c.u16())
			if nameLen > 0 {
				if style == 1 && nameLen%8 != 0 {
					d.finding("filter-name-padding", at, "version-1 filter name length %d is not a multiple of 8", nameLen)
				}
				f.Name = trimNul(c.bytes(nameLen))
				if style == 3 {
					c.skip(pad8(nameLen) - nameLen)
				}
			}
			for k := 0; k < nv && !c.bad; k++ {
				f.ClientData = append(f.ClientData, c.u32())
			}
			if style == 1 && nv%2 == 1 {
				c.skip(4)
			}
			if f.Name == "" {
				f.Name = filterNames[f.ID]
			}
			if f.ID == 0 {
				return out, false // 0 is reserved, never a valid filter
			}
			out = append(out, f)
		}
		return out, !c.bad
	}
	var out []Filter
	if d.trial(func() bool { var ok bool; out, ok = parse(int(ver)); return ok }) {
		return out, true
	}
	if d.trial(func() bool { var ok bool; out, ok = parse(3); return ok }) {
		d.finding("filter-pipeline-layout", at, "filter pipeline message declares version %d but is laid out with version-1 framing, unpadded name lengths and no client-data padding; decoded by that layout", ver)
		return out, true
	}
	d.finding("filter-pipeline-truncated", at, "filter pipeline message version %d with %d filters cannot be decoded from its %d bytes", ver, n, len(b))
	return nil, false
}

// parseAttribute decodes an attribute message (versions 1-3).
func (d *decoder) parseAttribute(b []byte, at uint64, owner string) (Attr, bool) {
	var a Attr
	c := &cur{b: b}
	ver := c.u8()
	flags := c.u8()
	nameSize := int(c.u16())
	dtSize := int(c.u16())
	dsSize := int(c.u16())
	switch ver {
	case 1:
		flags = 0
	case 2:
	case 3:
		c.u8() // name character set
	default:
		d.finding("attribute-version", at, "attribute message version %d", ver)
		return a, false
	}
	field := func(n int) []byte {
		v := c.bytes(n)
		if ver == 1 {
			c.skip(pad8(n) - n)
		}
		return v
	}
	name := field(nameSize)
	dtAt := at + uint64(c.p)
	dtb := field(dtSize)
	dsAt := at + uint64(c.p)
	dsb := field(dsSize)
	if c.bad {
		d.finding("attribute-truncated", at, "attribute message version %d (name %d, datatype %d, dataspace %d bytes) runs past its %d bytes", ver, nameSize, dtSize, dsSize, len(b))
		return a, false
	}
	if nameSize == 0 || name[nameSize-1] != 0 {
		d.finding("attribute-name-unterminated", at, "attribute name of %d bytes is not NUL-terminated", nameSize)
	}
	a.Name = trimNul(name)
	if flags&1 != 0 {
		var ok bool
		if dtb, dtAt, ok = d.resolveShared(msgDatatype, dtb, dtAt, 0); !ok {
			return a, false
		}
	}
	if flags&2 != 0 {
		var ok bool
		if dsb, dsAt, ok = d.resolveShared(msgDataspace, dsb, dsAt, 0); !ok {
			return a, false
		}
	}
	t, used, ok := d.parseDatatype(dtb, dtAt, 0)
	if !ok {
		return a, false
	}
	if flags&1 == 0 && used > dtSize {
		d.finding("attribute-datatype-size", at, "datatype needs %d bytes, attribute says %d", used, dtSize)
	}
	s, ok := d.parseDataspace(dsb, dsAt)
	if !ok {
		return a, false
	}
	a.Type = t
	a.Dims = s.dims
	n, ok := s.numElements()
	total, ok2 := mulOK(n, uint64(t.Size))
	if !ok || !ok2 || total > maxDataBytes {
		d.finding("attribute-data-size", at, "attribute %q element count overflows", a.Name)
		return a, true
	}
	if uint64(c.left()) < total {
		d.finding("attribute-data-short", at, "attribute %q needs %d data bytes, message has %d", a.Name, total, c.left())
		total = uint64(c.left())
	}
	a.Data = append([]byte(nil), c.bytes(int(total))...)
	if t.Class == 9 {
		a.VLen = d.resolveVLen(a.Data, t, owner)
	}
	return a, true
}

// parseLink decodes a link message (also used for dense links stored in a
// fractal heap).
func (d *decoder) parseLink(b []byte, at uint64) (Link, bool) {
	var l Link
	c := &cur{b: b}
	ver := c.u8()
	flags := c.u8()
	if ver != 1 {
		d.finding("link-version", at, "link message version %d", ver)
		return l, false
	}
	ltype := uint8(0)
	if flags&0x08 != 0 {
		ltype = c.u8()
	}
	if flags&0x04 != 0 {
		c.u64() // creation order
	}
	if flags&0x10 != 0 {
		c.u8() // character set
	}
	nlen := c.uN(1 << (flags & 3))
	if c.bad || nlen > uint64(c.left()) {
		d.finding("link-truncated", at, "link message name length %d exceeds message", nlen)
		return l, false
	}
	if nlen == 0 {
		d.finding("link-name-missing", at, "link message has an empty name")
	}
	l.Name = string(c.bytes(int(nlen)))
	switch ltype {
	case 0:
		l.Kind = "hard"
		a, def := d.addr(c)
		if !def {
			d.finding("link-address-undefined", at, "hard link %q has an undefined or truncated address", l.Name)
			return l, false
		}
		l.Addr = a
	case 1:
		l.Kind = "soft"
		n := int(c.u16())
		l.Target = string(c.bytes(n))
	case 64:
		l.Kind = "external"
		n := int(c.u16())
		info := c.bytes(n)
		v := &cur{b: info}
		vf := v.u8() // version (high nibble) / flags (low nibble): both 0
		var t1, t2 bool
		l.File, t1 = v.cstr()
		l.Target, t2 = v.cstr()
		if !c.bad && (vf != 0 || !t1 || !t2) {
			// Not "version byte, file name NUL, object path NUL". Alternative seen
			// in the wild: two length-prefixed strings, the first one being the
			// "link information" itself.
			a := &cur{b: c.b[c.p:]}
			n2 := int(a.u16())
			path := a.bytes(n2)
			if !a.bad && a.left() == 0 {
				d.finding("external-link-layout", at, "external link %q stores {length, file name}{length, object path}; the specification stores one length followed by a version/flags byte and two NUL-terminated strings", l.Name)
				l.File, l.Target = string(info), string(path)
				c.skip(2 + n2)
			} else {
				d.finding("external-link-layout", at, "external link %q: link information is not version byte + two NUL-terminated strings", l.Name)
			}
		}
	default:
		if ltype < 65 {
			d.finding("link-type", at, "link %q has type %d", l.Name, ltype)
			return l, false
		}
		// user-defined link: opaque link information
		l.Kind = "user-defined"
		n := int(c.u16())
		c.skip(n)
	}
	if c.bad {
		d.finding("link-truncated", at, "link message for %q runs past its %d bytes", l.Name, len(b))
		return l, false
	}
	return l, true
}

type linkInfo struct {
	heap, nameBT uint64
	heapOK, btOK bool
}

func (d *decoder) parseLinkInfo(b []byte, at uint64) (*linkInfo, bool) {
	c := &cur{b: b}
	ver := c.u8()
	flags := c.u8()
	if ver != 0 {
		d.finding("link-info-version", at, "link info message version %d", ver)
		return nil, false
	}
	if flags&1 != 0 {
		c.u64() // maximum creation index
	}
	li := &linkInfo{}
	li.heap, li.heapOK = d.addr(c)
	li.nameBT, li.btOK = d.addr(c)
	if flags&2 != 0 {
		d.addr(c) // creation order index
	}
	if c.bad {
		d.finding("link-info-truncated", at, "link info message flags %#x runs past its %d bytes", flags, len(b))
		return nil, false
	}
	if li.heapOK != li.btOK {
		d.finding("link-info-inconsistent", at, "exactly one of fractal heap address / name index address is defined")
	}
	return li, true
}

type attrInfo struct {
	heap, nameBT uint64
	heapOK, btOK bool
}

func (d *decoder) parseAttrInfo(b []byte, at uint64) (*attrInfo, bool) {
	c := &cur{b: b}
	ver := c.u8()
	flags := c.u8()
	if ver != 0 {
		d.finding("attr-info-version", at, "attribute info message version %d", ver)
		return nil, false
	}
	if flags&1 != 0 {
		c.u16() // maximum creation index
	}
	ai := &attrInfo{}
	ai.heap, ai.heapOK = d.addr(c)
	ai.nameBT, ai.btOK = d.addr(c)
	if flags&2 != 0 {
		d.addr(c)
	}
	if c.bad {
		d.finding("attr-info-truncated", at, "attribute info message flags %#x runs past its %d bytes", flags, len(b))
		return nil, false
	}
	if ai.heapOK != ai.btOK {
		d.finding("attr-info-inconsistent", at, "exactly one of fractal heap address / name index address is defined")
	}
	return ai, true
}
