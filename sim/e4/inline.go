package e4

// Inline interleavings at a seam, with lock probing (mode "inline").
//
// The time-sliced scheduler of this engine cannot park a goroutine at a point
// where another goroutine would then wait for a library sync.Mutex (synctest
// does not treat that as durably blocked). For check-then-act windows that
// contain a seam the library calls out through - here the detector's injected
// Clock - no second goroutine is needed: when the seam is entered the simulator
// probes the object's own lock with TryLock. If the lock is free, any other
// goroutine could run a whole operation at exactly this instant, and the
// simulator runs one right there, on the calling goroutine, then lets the
// interrupted operation continue. If the lock is held nothing is injected (no
// other goroutine could get in). One goroutine, no timing: the execution is a
// pure function of the trace.

import (
	"context"
	"fmt"
	"reflect"
	"strings"
	"sync"
	"time"
	"unsafe"

	"github.com/scigolib/hdf5/internal/rebalancing"
	"github.com/scigolib/hdf5/verifsim/e1"
	"github.com/scigolib/hdf5/verifsim/harness"
	"github.com/scigolib/hdf5/verifsim/rng"
	"github.com/scigolib/hdf5/verifsim/trace"
)

func genInline(r *rng.R, t *trace.Trace) {
	t.Config.Mode = "inline"
	n := r.Range(2, 14)
	var script []trace.Op
	for i := 0; i < n; i++ {
		op := trace.Op{Op: rng.Pick(r, []string{"record", "record", "record", "features", "detect", "stats", "isclosed", "close"}), N: r.Intn(3)}
		if op.Op == "close" && i < n/2 && r.Chance(0.7) {
			op.Op = "record"
		}
		if r.Chance(0.4) {
			op.Mode = rng.Pick(r, []string{"close", "close", "record", "features", "stats"})
		}
		script = append(script, op)
	}
	t.Tasks = []trace.Task{{ID: 0, Kind: "fg", Script: script}}
}

// probeClock is the detector's Clock: simulated time that advances by one
// microsecond per reading, and the interleaving point.
type probeClock struct {
	now     time.Time
	mu      func() (try func() bool, unlock func())
	pending string // operation to run at the next reading that finds the lock free
	run     func(string)
	fired   int
	held    int
	depth   int
}

func (c *probeClock) Now() time.Time {
	c.now = c.now.Add(time.Microsecond)
	if c.pending != "" && c.depth == 0 && c.mu != nil {
		try, unlock := c.mu()
		if try() {
			unlock()
			act := c.pending
			c.pending = ""
			c.fired++
			c.depth++
			c.run(act)
			c.depth--
		} else {
			c.held++
		}
	}
	return c.now
}

// lockOf finds the detector's own lock (a field named mu of type sync.RWMutex
// or sync.Mutex); nil when the type no longer has one (nothing is injected then).
func lockOf(d *rebalancing.WorkloadDetector) func() (func() bool, func()) {
	v := reflect.ValueOf(d).Elem().FieldByName("mu")
	if !v.IsValid() || !v.CanAddr() {
		return nil
	}
	p := unsafe.Pointer(v.UnsafeAddr())
	switch v.Type() {
	case reflect.TypeOf(sync.RWMutex{}):
		m := (*sync.RWMutex)(p)
		return func() (func() bool, func()) { return m.TryLock, m.Unlock }
	case reflect.TypeOf(sync.Mutex{}):
		m := (*sync.Mutex)(p)
		return func() (func() bool, func()) { return m.TryLock, m.Unlock }
	}
	return nil
}

func execInline(t *trace.Trace) *harness.RunResult {
	res := &harness.RunResult{Probes: map[string]int{}, Fired: map[string]int{}}
	viol := func(oracle, class, detail string) {
		res.Violations = append(res.Violations, trace.Violation{Property: "C18", Oracle: oracle, Class: class, Detail: detail})
	}
	if len(t.Tasks) == 0 {
		return res
	}
	clk := &probeClock{now: time.Unix(1_700_000_000, 0)}
	d := rebalancing.NewWorkloadDetector(rebalancing.WithClock(clk), rebalancing.WithMinSampleSize(2), rebalancing.WithWindowSize(time.Millisecond))
	clk.mu = lockOf(d)
	if clk.mu == nil {
		res.Probes["inline:no-lock-field"]++
	}
	closed := false // a Close has returned (scripted or injected)
	var log []string
	do := func(op string, n int, injected bool) {
		tag := op
		if injected {
			tag = "injected:" + op
		}
		pan := guard(func() {
			switch op {
			case "record":
				wasClosed := closed
				err := d.RecordOperation(context.Background(), rebalancing.OperationType(n%3), uint64(1000+n))
				switch {
				case err == nil && wasClosed:
					viol("parallel-vs-sequential", "record-accepted-after-close", tag+": RecordOperation returned nil although Close had already returned")
				case err != nil && !strings.Contains(err.Error(), "closed"):
					viol("parallel-vs-sequential", "record-error:"+e1.ErrClass(err.Error()), tag+": "+err.Error())
				case err != nil && !closed:
					viol("parallel-vs-sequential", "record-refused-while-open", tag+": "+err.Error()+" although no Close was issued")
				}
				log = append(log, fmt.Sprintf("%s=%v", tag, err))
			case "features":
				f := d.ExtractFeatures()
				log = append(log, fmt.Sprintf("%s=%v", tag, f))
			case "detect":
				log = append(log, fmt.Sprintf("%s=%v", tag, d.DetectWorkloadType()))
			case "stats":
				tot, win, _ := d.GetStats()
				log = append(log, fmt.Sprintf("%s=%d/%d", tag, tot, win))
			case "isclosed":
				if got := d.IsClosed(); got != closed {
					viol("parallel-vs-sequential", "isclosed", fmt.Sprintf("%s: IsClosed()=%v, Close returned=%v", tag, got, closed))
				}
			case "close":
				if err := d.Close(); err != nil {
					viol("lifecycle", "detector-close-error", tag+": "+err.Error())
				}
				closed = true
			}
		})
		if pan != "" {
			viol("panic", e1.ErrClass(pan), tag+" (detector operation interleaved at the clock seam): "+pan)
		}
	}
	clk.run = func(op string) { do(op, 1, true) }
	for _, op := range t.Tasks[0].Script {
		clk.pending = op.Mode
		do(op.Op, op.N, false)
		clk.pending = ""
	}
	_ = d.Close()
	res.Fired["inline-interleaving"] = clk.fired
	res.Probes["inline:seam-entered-with-lock-held"] += clk.held
	res.Probes["inline:interleaving-injected"] += clk.fired
	res.Ops = len(t.Tasks[0].Script)
	res.NonTrivial = clk.held+clk.fired > 0
	res.Interleaving = fnv(strings.Join(log, ";"))
	res.Fingerprint = fmt.Sprintf("inline|%x", res.Interleaving)
	return res
}

func fnv(s string) uint64 {
	h := uint64(14695981039346656037)
	for i := 0; i < len(s); i++ {
		h ^= uint64(s[i])
		h *= 1099511628211
	}
	return h
}
