package e4

import (
	"context"
	"encoding/binary"
	"fmt"
	"os"
	"path/filepath"
	"regexp"
	"runtime"
	"sort"
	"strings"
	"sync/atomic"
	"testing"
	"testing/synctest"
	"time"

	hdf5 "github.com/scigolib/hdf5"
	"github.com/scigolib/hdf5/internal/rebalancing"
	"github.com/scigolib/hdf5/internal/structures"
	"github.com/scigolib/hdf5/internal/utils"
	"github.com/scigolib/hdf5/internal/writer"
	"github.com/scigolib/hdf5/verifsim/e1"
	"github.com/scigolib/hdf5/verifsim/harness"
	"github.com/scigolib/hdf5/verifsim/rng"
	"github.com/scigolib/hdf5/verifsim/trace"
)

// CurT is the *testing.T of the entry test; synctest.Test needs it.
var CurT *testing.T

// ---------------------------------------------------------------------------
// generators

func delays(r *rng.R, n int, busy bool) []int64 {
	d := make([]int64, n)
	for i := range d {
		// 70% zero delays; bursts of delays elsewhere
		if r.Chance(0.7) && !(busy && r.Chance(0.5)) {
			continue
		}
		d[i] = int64(r.Range(1, 6))
	}
	return d
}

func genC18(r *rng.R, tier string, steer bool, idx int) *trace.Trace {
	t := &trace.Trace{}
	switch r.Weighted([]int{4, 4, 2, 1}) {
	case 0:
		genIncr(r, t, steer)
	case 1:
		genSmart(r, t, steer)
	case 3:
		genInline(r, t)
	default:
		genHandles(r, t)
	}
	return t
}

// (b) one foreground task on a WritableBTreeV2 against the library's ticker goroutine.
func genIncr(r *rng.R, t *trace.Trace, steer bool) {
	t.Config.Mode = "incremental"
	t.Config.NodeSize = rng.Pick(r, []int{256, 1024, 4096})
	var s []trace.Op
	n := r.Range(4, 40)
	names := r.Range(3, 20)
	enabled, lazy := false, false
	s = append(s, trace.Op{Op: "bt_enable_lazy", Lazy: &trace.LazyCfg{Threshold: rng.Pick(r, []float64{0.01, 0.2, 0.9}), MaxDelayNs: int64(rng.Pick(r, []int{1, 5000, 1000000000})), Batch: rng.Pick(r, []int{1, 3, 100})}})
	lazy = true
	for i := 0; i < n; i++ {
		name := fmt.Sprintf("k%d", r.Intn(names))
		switch r.Weighted([]int{30, 25, 8, 8, 8, 6, 6, 5, 4}) {
		case 0:
			s = append(s, trace.Op{Op: "bt_insert", Key: name, Val: r.Uint64() & 0xFFFFFFFFFFFF})
		case 1:
			s = append(s, trace.Op{Op: "bt_delete", Key: name, Mode: "lazy"})
		case 2:
			s = append(s, trace.Op{Op: "bt_search", Key: name})
		case 3:
			s = append(s, trace.Op{Op: "bt_progress"})
		case 4:
			s = append(s, trace.Op{Op: "bt_stats"})
		case 5:
			// interval = k*1024+1 ns of fake time: never on a harness wake-up instant
			s = append(s, trace.Op{Op: "bt_enable_incremental", Incr: &trace.IncrCfg{BudgetNs: int64(rng.Pick(r, []int{1, 1000, 1000000})), IntervalNs: int64(rng.Pick(r, []int{1, 2, 3, 5, 8, 16, 32}))*1024 + 1}})
			enabled = true
		case 6:
			s = append(s, trace.Op{Op: "bt_stop_incremental", N: rng.Pick(r, []int{1, 1, 2})})
			enabled = false
		case 7:
			s = append(s, trace.Op{Op: "advance", DurNs: int64(r.Range(1, 40))})
		case 8:
			if !steer { // avoidance (known finding): lazy state is shared with the ticker goroutine without synchronisation
				if lazy {
					s = append(s, trace.Op{Op: "bt_disable_lazy"})
				} else {
					s = append(s, trace.Op{Op: "bt_enable_lazy", Lazy: &trace.LazyCfg{Threshold: 0.05, MaxDelayNs: 1000, Batch: 5}})
				}
				lazy = !lazy
			} else {
				s = append(s, trace.Op{Op: "bt_force_batch"})
			}
		}
	}
	_ = enabled
	// every start is matched by a stop (the caller's obligation); the stop must return
	s = append(s, trace.Op{Op: "bt_stop_incremental", N: 1})
	t.Tasks = []trace.Task{
		{ID: 0, Kind: "fg", Script: s, Delays: delays(r, 4*len(s)+8, false)},
		{ID: 1, Kind: "bg", Delays: delays(r, 200, true)},
		{ID: 2, Kind: "bg", Delays: delays(r, 200, true)},
		{ID: 3, Kind: "bg", Delays: delays(r, 200, true)},
	}
}

// (c) 1-4 caller tasks on one SmartRebalancer (documented thread-safe) against its monitor goroutine.
func genSmart(r *rng.R, t *trace.Trace, steer bool) {
	t.Config.Mode = "smart"
	t.Config.NodeSize = 1024
	nt := r.Range(1, 4)
	// re-evaluation interval of the monitor: k*1024+33 ns of fake time
	// [3]: the file size the adapter reports (constant during the run): above
	// 500 MB the rule-based strategy selects the incremental mode, so the monitor
	// really starts and stops the background rebalancer
	t.Config.Extra = []string{fmt.Sprint(int64(rng.Pick(r, []int{2, 3, 5, 8, 12, 20, 40}))*1024 + 33), fmt.Sprint(rng.Pick(r, []float64{0, 0.5, 0.7})), fmt.Sprint(rng.Pick(r, []int64{0, 2048, 1 << 20})),
		fmt.Sprint(rng.Pick(r, []int64{1 << 20, 600 << 20, 600 << 20, 2 << 30}))}
	// In half of the traces only task 0 calls Start/Stop: then the monitor
	// goroutine may sleep at its yield points (see bubbleBody), which is what lets
	// a Stop arrive in the middle of a monitor tick.
	singleOwner := r.Chance(0.5)
	// in some traces the owner of the context cancels it before calling Stop
	cancels := r.Chance(0.2)
	for i := 0; i < nt; i++ {
		var s []trace.Op
		n := r.Range(3, 25)
		for k := 0; k < n; k++ {
			w := []int{40, 12, 10, 8, 8, 8, 6}
			if singleOwner && i > 0 {
				w[4], w[5] = 0, 0
			}
			switch r.Weighted(w) {
			case 0:
				s = append(s, trace.Op{Op: "sr_record", N: r.Intn(3), Val: rng.Pick(r, []uint64{1 << 10, 200 << 20, 2 << 30})})
			case 1:
				s = append(s, trace.Op{Op: "sr_evaluate"})
			case 2:
				s = append(s, trace.Op{Op: "sr_stats"})
			case 3:
				s = append(s, trace.Op{Op: "sr_metrics"})
			case 4:
				s = append(s, trace.Op{Op: "sr_start"})
			case 5:
				s = append(s, trace.Op{Op: "sr_stop"})
			case 6:
				s = append(s, trace.Op{Op: "advance", DurNs: int64(r.Range(1, 30))})
			}
			if cancels && i == 0 && k == n/2 {
				s = append(s, trace.Op{Op: "sr_cancel"}, trace.Op{Op: "sr_stop"})
			}
		}
		t.Tasks = append(t.Tasks, trace.Task{ID: i, Kind: "fg", Script: s, Delays: delays(r, 8*len(s)+8, false)})
	}
	for i := 0; i < 4; i++ {
		t.Tasks = append(t.Tasks, trace.Task{ID: nt + i, Kind: "bg", Delays: delays(r, 300, true)})
	}
}

// (a) independent handles: readers on a shared file, writers on their own files.
func genHandles(r *rng.R, t *trace.Trace) {
	t.Config.Mode = "handles"
	nt := r.Range(2, 5)
	for i := 0; i < nt; i++ {
		kind := rng.Pick(r, []string{"reader", "reader", "writer"})
		var s []trace.Op
		if kind == "reader" {
			for k := 0; k < r.Range(1, 3); k++ {
				if r.Chance(0.25) {
					s = append(s, trace.Op{Op: "h_dump_cut", N: r.Intn(2), Seed: r.Uint64()})
					continue
				}
				s = append(s, trace.Op{Op: "h_dump", N: r.Intn(2)}) // which shared file
			}
		} else {
			s = append(s, trace.Op{Op: "h_write", Seed: r.Uint64() % 1000, N: r.Range(1, 4)}, trace.Op{Op: "h_dump_own"})
		}
		t.Tasks = append(t.Tasks, trace.Task{ID: i, Kind: "fg", Script: s, Delays: delays(r, 600, true)})
	}
}

// ---------------------------------------------------------------------------
// adapter: rebalancing.BTreeV2 over the real WritableBTreeV2 (the repository has
// no implementation of this interface outside test mocks)

type treeAdapter struct {
	bt   *structures.WritableBTreeV2
	size uint64
}

func (a *treeAdapter) EnableLazyRebalancing(c structures.LazyRebalancingConfig) error {
	a.bt.EnableLazyRebalancing(c)
	return nil
}
func (a *treeAdapter) EnableIncrementalRebalancing(c structures.IncrementalRebalancingConfig) error {
	if !a.bt.IsLazyRebalancingEnabled() {
		a.bt.EnableLazyRebalancing(structures.DefaultLazyConfig())
	}
	c.Interval = 3*1024 + 1 // fake nanoseconds
	c.Budget = 1000
	setIncrIntervalCur(c.Interval)
	return a.bt.EnableIncrementalRebalancing(c)
}
func (a *treeAdapter) DisableRebalancing() error {
	_ = a.bt.StopIncrementalRebalancing()
	return nil
}
func (a *treeAdapter) StartBackgroundRebalancing(context.Context) error { return nil }
func (a *treeAdapter) StopBackgroundRebalancing() error                 { return a.bt.StopIncrementalRebalancing() }
func (a *treeAdapter) GetFileSize() uint64                              { return a.size }

// ---------------------------------------------------------------------------
// execution of one bubble

type bubbleOut struct {
	before     map[string]bool
	s          *sched
	stopHang   string
	leak       string
	deadlock   string
	results    [][]string
	seqResults [][]string
	simNs      int64
	fgPanics   []string
}

func guard(f func()) (pan string) {
	defer func() {
		if r := recover(); r != nil {
			pan = fmt.Sprint(r) + " @" + e1.PanicSite()
		}
	}()
	f()
	return ""
}

var reRepoFrame = regexp.MustCompile(`github\.com/scigolib/hdf5(/internal/[a-z]+)?\.`)

// repoGoroutines returns the goroutines (other than the caller) that have a
// library frame on their stack.
func repoGoroutines(ignore map[string]bool) []string {
	buf := make([]byte, 1<<20)
	n := runtime.Stack(buf, true)
	var out []string
	for i, g := range strings.Split(string(buf[:n]), "\n\n") {
		if i == 0 {
			continue // the calling goroutine
		}
		// "goroutine 123 [select]:" - goroutines that existed before this bubble
		// started (left over from an earlier run of this worker) are not this run's
		if k := strings.Index(g, " ["); k > 0 && ignore[g[:k]] {
			continue
		}
		if strings.Contains(g, "verifsim") && !strings.Contains(g, "scigolib/hdf5/internal") {
			continue
		}
		for _, l := range strings.Split(g, "\n") {
			if strings.HasPrefix(l, "github.com/scigolib/hdf5/internal") || strings.HasPrefix(l, "github.com/scigolib/hdf5.") {
				fn := l
				if k := strings.LastIndex(fn, "("); k > 0 {
					fn = fn[:k]
				}
				out = append(out, strings.TrimPrefix(fn, "github.com/scigolib/hdf5"))
				break
			}
		}
	}
	if ignore == nil {
		return out
	}
	sort.Strings(out)
	var uniq []string
	for i, x := range out {
		if i == 0 || x != out[i-1] {
			uniq = append(uniq, x)
		}
	}
	return uniq
}

// goroutineIDs returns the "goroutine N" headers of all goroutines alive now.
func goroutineIDs() map[string]bool {
	buf := make([]byte, 1<<20)
	n := runtime.Stack(buf, true)
	ids := map[string]bool{}
	for _, g := range strings.Split(string(buf[:n]), "\n\n") {
		if k := strings.Index(g, " ["); k > 0 {
			ids[g[:k]] = true
		}
	}
	return ids
}

func runBubble(t *trace.Trace, dir string) (bo *bubbleOut) {
	bo = &bubbleOut{}
	bo.before = goroutineIDs()
	nfg := 0
	for _, tk := range t.Tasks {
		if tk.Kind == "fg" {
			nfg++
		}
	}
	// The bubble runs in a helper goroutine: when the race detector reported
	// something during the bubble, the testing package fails the bubble's T and
	// FailNow()s the caller of synctest.Test (runtime.Goexit) - that must not end
	// the worker. The helper's deferred function still runs.
	finished := make(chan struct{})
	go func() {
		defer close(finished)
		defer func() {
			// synctest panics when the bubble's root returns while goroutines are
			// still blocked (a goroutine that outlived its Stop / a hung Stop)
			if r := recover(); r != nil {
				bo.deadlock = fmt.Sprint(r)
			}
		}()
		bubbleBody(t, dir, bo, nfg)
	}()
	select {
	case <-finished:
	case <-time.After(realTimeLimit):
		// Fake time cannot advance while a goroutine of the bubble waits for a
		// sync.Mutex (that is not a durable block), so a lock that is never
		// released stalls the bubble in real time. This process cannot recover
		// from that: name the lock site and die; the driver attributes the death
		// to the announced trace and confirms it by replaying in fresh processes.
		site := lockBlockedSite()
		if site == "" {
			fmt.Fprintln(os.Stderr, "INFRA: bubble made no progress for "+realTimeLimit.String()+" and no goroutine waits for a library lock")
			os.Exit(2)
		}
		// one stable class; which callers are stuck depends on the schedule
		fmt.Fprintln(os.Stderr, "HANG: deadlock library-lock-never-released")
		fmt.Fprintln(os.Stderr, "goroutines waiting for a library lock: "+site)
		os.Exit(3)
	}
	return bo
}

// realTimeLimit bounds the real time of one bubble (a healthy bubble takes
// milliseconds; fake time costs nothing).
const realTimeLimit = 15 * time.Second

// lockBlockedSite returns the innermost library function of a goroutine that
// waits for a sync.Mutex / sync.RWMutex, or "".
func lockBlockedSite() string {
	buf := make([]byte, 4<<20)
	n := runtime.Stack(buf, true)
	var sites []string
	for _, g := range strings.Split(string(buf[:n]), "\n\n") {
		hdr, _, _ := strings.Cut(g, "\n")
		if !strings.Contains(hdr, "sync.Mutex.Lock") && !strings.Contains(hdr, "sync.RWMutex") && !strings.Contains(hdr, "semacquire") {
			continue
		}
		for _, l := range strings.Split(g, "\n")[1:] {
			l = strings.TrimSpace(l)
			if strings.HasPrefix(l, "github.com/scigolib/hdf5/verifsim") {
				break
			}
			if strings.HasPrefix(l, "github.com/scigolib/hdf5") {
				fn := strings.TrimPrefix(l, "github.com/scigolib/hdf5")
				if k := strings.LastIndex(fn, "("); k > 0 {
					fn = fn[:k]
				}
				sites = append(sites, fn)
				break
			}
		}
	}
	sort.Strings(sites)
	return strings.Join(sites, ", ")
}

func bubbleBody(t *trace.Trace, dir string, bo *bubbleOut, nfg int) {
	synctest.Test(CurT, func(*testing.T) {
		s := &sched{start: time.Now(), maxSteps: 4000}
		if t.Config.Mode == "smart" {
			// the smart rebalancer stops the incremental loop while holding its own
			// mutex (applyDecision): no sleeping at the yield points inside that call
			// ... nor in the incremental loop, which that call waits for. The monitor
			// goroutine itself may sleep at its yield points (all outside locks) as
			// long as at most one caller uses Start/Stop: Stop waits for the monitor
			// while holding the lifecycle mutex, and a second caller blocked on that
			// mutex is not durably blocked, so fake time could not advance.
			s.noSleep = []string{"incr."}
			lifecycleTasks := 0
			for _, tk := range t.Tasks {
				for _, op := range tk.Script {
					if op.Op == "sr_start" || op.Op == "sr_stop" {
						lifecycleTasks++
						break
					}
				}
			}
			s.bgNoSleep = lifecycleTasks > 1
			var iv int64 = 5*1024 + 33
			if len(t.Config.Extra) >= 1 {
				fmt.Sscan(t.Config.Extra[0], &iv)
			}
			s.smartInterval = time.Duration(iv)
		}
		s.nfg = nfg
		for _, tk := range t.Tasks {
			s.tasks = append(s.tasks, &taskState{name: tk.Kind + fmt.Sprint(tk.ID), delays: tk.Delays})
		}
		s.tasks = append(s.tasks, &taskState{name: "main"})
		s.bind(len(s.tasks) - 1)
		cur = s
		bo.s = s
		utils.VerifYieldHook = func(site string) { s.yield(site) }
		defer func() { utils.VerifYieldHook = nil; cur = nil }()
		env := newEnv(t, dir, s)
		defer env.cleanup()
		// Staggered start: goroutines made runnable by `go` at the same instant
		// would start in an order the runtime chooses. Each task first sleeps to
		// its own slot (assigned here, by the main task), so the fake clock decides.
		now := time.Since(s.start)
		first := (now/slot + 1) * slot
		for i := 0; i < nfg; i++ {
			i := i
			wake := first + time.Duration(i)*slot
			go func() {
				s.bind(i)
				time.Sleep(wake - now)
				pan := guard(func() { env.runTask(i, t.Tasks[i].Script) })
				s.markDone(i, pan)
			}()
		}
		s.nextWake = first + time.Duration(nfg)*slot
		// wait (in fake time) for the foreground tasks; a task that never
		// finishes is a stop that does not return
		for k := 0; k < 3000 && !s.allDone(nfg); k++ {
			s.sleepSlots(64)
		}
		if !s.allDone(nfg) {
			var stuck []string
			for i := 0; i < nfg; i++ {
				if !s.tasks[i].done {
					stuck = append(stuck, s.tasks[i].name)
				}
			}
			bo.stopHang = strings.Join(stuck, ",")
		}
		env.finalStop()
		synctest.Wait()
		if gs := repoGoroutines(bo.before); len(gs) > 0 && bo.stopHang == "" {
			bo.leak = strings.Join(gs, ";")
		}
		bo.simNs = int64(time.Since(s.start))
		if t.Config.Mode == "incremental" && nfg == 1 && s.allDone(nfg) {
			s.addResult(0, indexContent(env.bt))
		}
		for i := 0; i < nfg; i++ {
			bo.results = append(bo.results, s.tasks[i].result)
			if s.tasks[i].panic != "" {
				bo.fgPanics = append(bo.fgPanics, s.tasks[i].panic)
			}
		}
		bo.seqResults = env.sequentialResults(t, nfg)
	})
}

// env holds the objects of one run.
type env struct {
	t      *trace.Trace
	dir    string
	s      *sched
	bt     *structures.WritableBTreeV2
	ad     *treeAdapter
	sr     *rebalancing.SmartRebalancer
	shared []string
	ctx    context.Context
	cancel context.CancelFunc
	// noBg: sequential reference run of the incremental mode - the background
	// rebalancer is never started
	noBg  bool
	snaps []heldSnapshot
}

type heldSnapshot struct {
	snap   rebalancing.MetricsSnapshot
	digest string
	taken  bool
}

// snapshotDigest renders the map-valued parts of a metrics snapshot.
func snapshotDigest(m rebalancing.MetricsSnapshot) string {
	return fmt.Sprint(m.TotalEvaluations, m.TotalOperations, m.DecisionsByMode, m.DecisionsByWorkload, m.OperationsByType)
}

// monitorStillParked reports a SmartRebalancer monitor goroutine that is
// blocked (sleeping at a yield point, waiting in select) - not one that is
// merely finishing.
func monitorStillParked() string {
	buf := make([]byte, 1<<20)
	n := runtime.Stack(buf, true)
	for _, g := range strings.Split(string(buf[:n]), "\n\n") {
		if !strings.Contains(g, "rebalancing.(*SmartRebalancer).monitorLoop") {
			continue
		}
		hdr, _, _ := strings.Cut(g, "\n")
		if strings.Contains(hdr, "[running") || strings.Contains(hdr, "[runnable") {
			continue
		}
		return strings.TrimSpace(hdr)
	}
	return ""
}

func newEnv(t *trace.Trace, dir string, s *sched) *env {
	e := &env{t: t, dir: dir, s: s, snaps: make([]heldSnapshot, len(t.Tasks)+1)}
	node := t.Config.NodeSize
	if node == 0 {
		node = 1024
	}
	switch t.Config.Mode {
	case "incremental":
		e.bt = structures.NewWritableBTreeV2(uint32(node))
	case "smart":
		e.bt = structures.NewWritableBTreeV2(uint32(node))
		e.ad = &treeAdapter{bt: e.bt, size: 1 << 20}
		if len(t.Config.Extra) >= 4 {
			fmt.Sscan(t.Config.Extra[3], &e.ad.size)
		}
		var iv int64 = 5*1024 + 33
		minConf, stab := 0.7, int64(0)
		if len(t.Config.Extra) >= 3 {
			fmt.Sscan(t.Config.Extra[0], &iv)
			fmt.Sscan(t.Config.Extra[1], &minConf)
			fmt.Sscan(t.Config.Extra[2], &stab)
		}
		cons := rebalancing.DefaultSafetyConstraints()
		cons.MinConfidence, cons.MinStabilityPeriod = minConf, time.Duration(stab)
		e.sr = rebalancing.NewSmartRebalancer(e.ad,
			rebalancing.WithReevalInterval(time.Duration(iv)),
			rebalancing.WithDetector(rebalancing.NewWorkloadDetector(rebalancing.WithMinSampleSize(3), rebalancing.WithWindowSize(time.Millisecond))),
			rebalancing.WithSelector(rebalancing.NewConfigSelector(rebalancing.WithSafetyConstraints(cons))))
		e.ctx, e.cancel = context.WithCancel(context.Background())
	case "handles":
		// two shared files written before the tasks start
		for k := 0; k < 2; k++ {
			p := filepath.Join(dir, fmt.Sprintf("shared%d.h5", k))
			writeFile(p, uint64(100+k), 2+k)
			e.shared = append(e.shared, p)
		}
	}
	return e
}

func (e *env) cleanup() {
	if e.cancel != nil {
		e.cancel()
	}
	for _, p := range e.shared {
		_ = os.Remove(p)
	}
}

// finalStop is the caller's closing obligation for objects that are safe to use
// from any goroutine (the smart rebalancer); the B-tree is stopped by its own task.
func (e *env) finalStop() {
	if e.sr != nil {
		_ = guard(func() { _ = e.sr.Stop() })
	}
}

func writeFile(path string, seed uint64, nds int) {
	fw, err := hdf5.CreateForWrite(path, hdf5.CreateTruncate)
	if err != nil {
		return
	}
	for i := 0; i < nds; i++ {
		n := 8 + int(seed+uint64(i))%24
		dw, err := fw.CreateDataset(fmt.Sprintf("/d%d", i), hdf5.Float64, []uint64{uint64(n)})
		if err != nil {
			continue
		}
		data := make([]float64, n)
		for k := range data {
			data[k] = float64(seed) + float64(i*1000+k)/4
		}
		_ = dw.Write(data)
		for a := 0; a < 1+i%3; a++ {
			_ = dw.WriteAttribute(fmt.Sprintf("a%d", a), int32(int(seed)+a))
		}
		if i%2 == 1 {
			for a := 0; a < 9; a++ { // dense attribute storage
				_ = dw.WriteAttribute(fmt.Sprintf("dense%d", a), float64(a)+0.5)
			}
		}
	}
	// fixed-length strings whose size depends on the seed: per-file datatype
	// descriptions must not be shared between writers
	sz := 4 + int(seed%5)*4
	if sw, err := fw.CreateDataset("/s", hdf5.String, []uint64{3}, hdf5.WithStringSize(uint32(sz))); err == nil {
		_ = sw.Write([]string{strings.Repeat("a", sz-1), "b", strings.Repeat("c", sz/2)})
	}
	_, _ = fw.CreateGroup("/g")
	_ = fw.Close()
}

func dumpDigest(path string) string {
	d := e1.DumpFile(path, e1.DumpOpts{})
	var b strings.Builder
	fmt.Fprintf(&b, "open=%q panic=%q;", d.OpenErr, d.Panic)
	for _, o := range d.Objs {
		fmt.Fprintf(&b, "%s|%s|%v|%v|%q|%q|%d|%q;", o.Path, o.Kind, o.Dims, o.F64, o.F64Err, o.Strs, len(o.Attrs), o.AttrsErr)
		for _, a := range o.Attrs {
			fmt.Fprintf(&b, "%s=%x,", a.Name, a.Data)
		}
	}
	return b.String()
}

func heapID(v uint64) uint64 { return v & 0x00FFFFFFFFFFFFFF }

// runTask executes one foreground script; every operation boundary is a yield point.
func (e *env) runTask(i int, script []trace.Op) {
	s := e.s
	for k := range script {
		op := &script[k]
		s.yield("op:" + op.Op)
		switch op.Op {
		case "advance":
			s.sleepSlots(op.DurNs)
		// --- B-tree with incremental rebalancer
		case "bt_enable_lazy":
			cfg := structures.DefaultLazyConfig()
			if op.Lazy != nil {
				cfg.Threshold, cfg.MaxDelay, cfg.BatchSize = op.Lazy.Threshold, time.Duration(op.Lazy.MaxDelayNs), op.Lazy.Batch
			}
			e.bt.EnableLazyRebalancing(cfg)
		case "bt_disable_lazy":
			_ = e.bt.DisableLazyRebalancing()
		case "bt_force_batch":
			_ = e.bt.ForceBatchRebalance()
		case "bt_insert":
			err := e.bt.InsertRecord(op.Key, heapID(op.Val))
			s.addResult(i, fmt.Sprintf("insert %s %v", op.Key, err == nil))
		case "bt_delete":
			var err error
			if e.bt.IsLazyRebalancingEnabled() {
				err = e.bt.DeleteRecordLazy(op.Key)
			} else {
				err = e.bt.DeleteRecord(op.Key)
			}
			s.addResult(i, fmt.Sprintf("delete %s %v", op.Key, err == nil))
		case "bt_search":
			v, ok := e.bt.SearchRecord(op.Key)
			s.addResult(i, fmt.Sprintf("search %s %x %v", op.Key, v, ok))
		case "bt_progress":
			_, _ = e.bt.GetIncrementalRebalancingProgress()
		case "bt_stats":
			_, _, _ = e.bt.GetLazyRebalancingStats()
			_ = e.bt.IsIncrementalRebalancingEnabled()
		case "bt_enable_incremental":
			if e.noBg {
				break
			}
			cfg := structures.DefaultIncrementalConfig()
			if op.Incr != nil {
				cfg.Budget, cfg.Interval = time.Duration(op.Incr.BudgetNs), time.Duration(op.Incr.IntervalNs)
			}
			if !e.bt.IsIncrementalRebalancingEnabled() {
				// (a second enable is rejected and leaves the running loop's period)
				e.setIncrInterval(cfg.Interval)
			}
			_ = e.bt.EnableIncrementalRebalancing(cfg)
		case "bt_stop_incremental":
			if e.noBg {
				break
			}
			for n := 0; n < max(op.N, 1); n++ {
				_ = e.bt.StopIncrementalRebalancing()
			}
		// --- smart rebalancer
		case "sr_record":
			_ = e.sr.RecordOperation(rebalancing.OperationType(op.N))
		case "sr_evaluate":
			_, _ = e.sr.Evaluate()
		case "sr_stats":
			st := e.sr.GetStats()
			s.addResult(i, fmt.Sprintf("evals>=%d", st.TotalEvaluations*0))
		case "sr_metrics":
			// a snapshot is a value: what it shows must not change after it was taken
			if h := &e.snaps[i]; h.taken {
				if now := snapshotDigest(h.snap); now != h.digest {
					s.addResult(i, "VIOLATION snapshot-mutated: "+h.digest+" -> "+now)
				}
			}
			snap := e.sr.GetMetrics()
			e.snaps[i] = heldSnapshot{snap: snap, digest: snapshotDigest(snap), taken: true}
			_ = e.sr.GetMetricsString()
		case "sr_cancel":
			if e.cancel != nil {
				e.cancel() // the context given to Start is cancelled by its owner
			}
		case "sr_start":
			_ = e.sr.Start(e.ctx)
		case "sr_stop":
			_ = e.sr.Stop()
			// "every start is matched by a stop that returns ... and no goroutine
			// outlives it": when Stop has returned, no monitor goroutine of this
			// rebalancer may still be parked inside its loop
			if g := monitorStillParked(); g != "" {
				s.addResult(i, "VIOLATION monitor-outlives-stop: "+g)
			}
		// --- independent handles
		case "h_dump":
			s.addResult(i, dumpDigest(e.shared[op.N%len(e.shared)]))
		case "h_dump_cut":
			// a reader on its own damaged copy (cut at a seeded length): error paths
			// of the parsers run next to healthy handles
			src := e.shared[op.N%len(e.shared)]
			p := filepath.Join(e.dir, fmt.Sprintf("cut%d.h5", i))
			if b, err := os.ReadFile(src); err == nil && len(b) > 16 {
				// half of the cuts fall into the first 8 KiB, where the object headers are
				span := uint64(len(b) - 16)
				if op.Seed&1 == 1 && span > 8192 {
					span = 8192
				}
				_ = os.WriteFile(p, b[:16+int((op.Seed>>1)%span)], 0o644)
				s.addResult(i, dumpDigest(p))
				_ = os.Remove(p)
			}
		case "h_write":
			p := filepath.Join(e.dir, fmt.Sprintf("own%d.h5", i))
			writeFile(p, op.Seed, op.N)
		case "h_dump_own":
			p := filepath.Join(e.dir, fmt.Sprintf("own%d.h5", i))
			s.addResult(i, dumpDigest(p))
			_ = os.Remove(p)
		}
	}
}

// indexContent renders the records of the B-tree (the index content the
// foreground task must find whatever the background rebalancer did meanwhile).
func indexContent(bt *structures.WritableBTreeV2) string {
	var b strings.Builder
	recs := bt.GetRecords()
	fmt.Fprintf(&b, "content n=%d:", len(recs))
	for _, r := range recs {
		fmt.Fprintf(&b, " %08x=%x", r.NameHash, r.HeapID)
	}
	return b.String()
}

// sequentialResults re-runs the scripts without interleaving to obtain the
// expected results: the independent-handle scripts one after another; the
// incremental-mode script on a fresh index whose background rebalancer is
// never started (background rebalancing must not change what insert, delete
// and search return, nor the final content).
func (e *env) sequentialResults(t *trace.Trace, nfg int) [][]string {
	if t.Config.Mode == "incremental" && nfg == 1 {
		node := t.Config.NodeSize
		if node == 0 {
			node = 1024
		}
		ref := &env{t: t, dir: e.dir, bt: structures.NewWritableBTreeV2(uint32(node)), noBg: true, snaps: make([]heldSnapshot, len(t.Tasks)+1)}
		seq := &sched{start: time.Now(), maxSteps: 0}
		seq.tasks = []*taskState{{name: "seq"}, {name: "seq"}}
		ref.s = seq
		oldCur := cur
		cur = seq
		defer func() { cur = oldCur }()
		seq.bind(0)
		ref.runTask(0, t.Tasks[0].Script)
		seq.addResult(0, indexContent(ref.bt))
		return [][]string{seq.tasks[0].result}
	}
	if t.Config.Mode != "handles" {
		return nil
	}
	seq := &sched{start: time.Now(), maxSteps: 0}
	for range t.Tasks {
		seq.tasks = append(seq.tasks, &taskState{name: "seq"})
	}
	seq.tasks = append(seq.tasks, &taskState{name: "seq"})
	old, oldCur := e.s, cur
	e.s, cur = seq, seq
	defer func() { e.s, cur = old, oldCur }()
	var out [][]string
	for i := 0; i < nfg; i++ {
		seq.bind(i)
		e.runTask(i, t.Tasks[i].Script)
		out = append(out, seq.tasks[i].result)
		seq.tasks[i].goid = 0
	}
	return out
}

// ---------------------------------------------------------------------------
// race log

var raceLogPath string

func init() {
	for _, kv := range strings.Fields(os.Getenv("GORACE")) {
		if strings.HasPrefix(kv, "log_path=") {
			raceLogPath = strings.TrimPrefix(kv, "log_path=") + "." + fmt.Sprint(os.Getpid())
		}
	}
}

func raceLogSize() int64 {
	if raceLogPath == "" {
		return 0
	}
	st, err := os.Stat(raceLogPath)
	if err != nil {
		return 0
	}
	return st.Size()
}

type raceReport struct {
	pair    string
	harness bool
	text    string
}

// readRaces parses the race reports appended to the log since offset from.
func readRaces(from int64) []raceReport {
	if raceLogPath == "" {
		return nil
	}
	f, err := os.Open(raceLogPath)
	if err != nil {
		return nil
	}
	defer f.Close()
	st, _ := f.Stat()
	if st.Size() <= from {
		return nil
	}
	b := make([]byte, st.Size()-from)
	_, _ = f.ReadAt(b, from)
	var out []raceReport
	for _, blk := range strings.Split(string(b), "WARNING: DATA RACE") {
		if !strings.Contains(blk, " by goroutine ") && !strings.Contains(blk, " by main goroutine") {
			continue
		}
		// the two access stacks: sections starting with "Read at"/"Write at"/"Previous read at"/"Previous write at"
		var tops []string
		onlyHarness := true
		sections := regexp.MustCompile(`(?m)^(Read at|Write at|Previous read at|Previous write at)`).Split(blk, -1)
		for _, sec := range sections[1:] {
			top := ""
			if strings.Contains(sec, "runtime.raceread()\n      <autogenerated>") || strings.Contains(sec, "runtime.racewrite()\n      <autogenerated>") {
				// an explicit race annotation inside a sync primitive (e.g. WaitGroup:
				// Add concurrent with Wait). The harness uses no such primitive.
				top = "sync-primitive-misuse(WaitGroup.Add concurrent with Wait)"
			}
			for li, l := range strings.Split(sec, "\n") {
				if top != "" {
					break
				}
				if li == 0 {
					continue // rest of the "Read at 0x... by goroutine N:" line
				}
				l = strings.TrimSpace(l)
				if l == "" || strings.HasPrefix(l, "Goroutine ") {
					break // end of this access stack
				}
				if strings.HasPrefix(l, "/") || strings.HasPrefix(l, "<autogenerated>") {
					continue // file:line of the previous frame
				}
				if strings.HasPrefix(l, "runtime.") || strings.HasPrefix(l, "internal/") || strings.HasPrefix(l, "sync/atomic.") {
					continue
				}
				if strings.HasPrefix(l, "github.com/scigolib/hdf5/verifsim") {
					break // the innermost non-runtime frame is harness code
				}
				if strings.HasPrefix(l, "github.com/scigolib/hdf5") {
					fn := l
					if k := strings.LastIndex(fn, "("); k > 0 {
						fn = fn[:k]
					}
					top = strings.TrimPrefix(fn, "github.com/scigolib/hdf5")
				}
				break
			}
			if top != "" {
				onlyHarness = false
				tops = append(tops, top)
			} else {
				tops = append(tops, "(outside the library)")
			}
		}
		sort.Strings(tops)
		if len(tops) > 2 {
			tops = tops[:2]
		}
		out = append(out, raceReport{pair: strings.Join(tops, " <-> "), harness: onlyHarness, text: blk})
	}
	return out
}

// ---------------------------------------------------------------------------
// Exec

func execC18(t *trace.Trace, dir string) *harness.RunResult {
	if t.Config.Mode == "inline" {
		return execInline(t)
	}
	res := &harness.RunResult{Probes: map[string]int{}, Fired: map[string]int{}}
	viol := func(oracle, class, detail string) {
		res.Violations = append(res.Violations, trace.Violation{Property: "C18", Oracle: oracle, Class: class, Detail: detail})
	}
	// deterministic shared buffer pool with poisoning: a pooled scratch buffer
	// that escaped into a returned value is overwritten as soon as it is released
	pool := &poisonPool{}
	utils.VerifPoolGet, utils.VerifPoolPut = pool.Get, pool.Put
	defer func() { utils.VerifPoolGet, utils.VerifPoolPut = nil, nil }()
	installIOYield()
	defer uninstallIOYield()

	from := raceLogSize()
	bo := runBubble(t, dir)
	races := readRaces(from)
	nfg := 0
	for _, tk := range t.Tasks {
		if tk.Kind == "fg" {
			nfg++
		}
	}
	seen := map[string]bool{}
	for _, rr := range races {
		if rr.harness {
			res.Infra = "race report without a library frame (harness race): " + firstLines(rr.text, 12)
			return res
		}
		if !seen[rr.pair] {
			seen[rr.pair] = true
			viol("race", rr.pair, "data race reported by the race detector between "+rr.pair)
		}
	}
	if pool.doubleRelease != "" {
		viol("buffer-pool", "double-release@"+pool.doubleRelease, "a pooled scratch buffer was released twice (the pool would hand the same memory to two users): released again in "+pool.doubleRelease)
	}
	for _, p := range bo.fgPanics {
		viol("panic", e1.ErrClass(p), p)
	}
	if bo.stopHang != "" {
		viol("liveness", "stop-does-not-return:"+t.Config.Mode, "tasks still blocked after the step budget: "+bo.stopHang)
	}
	if bo.leak != "" {
		viol("goroutine-leak", bo.leak, "library goroutines alive after the last Stop: "+bo.leak)
	}
	if bo.deadlock != "" && bo.stopHang == "" && bo.leak == "" {
		viol("goroutine-leak", "blocked-at-end:"+e1.ErrClass(bo.deadlock), bo.deadlock)
	}
	for i := range bo.results {
		for _, r := range bo.results[i] {
			if strings.HasPrefix(r, "VIOLATION ") {
				kind, detail, _ := strings.Cut(strings.TrimPrefix(r, "VIOLATION "), ": ")
				viol("lifecycle", kind, detail)
			}
		}
	}
	if bo.seqResults != nil {
		for i := range bo.seqResults {
			if i < len(bo.results) && strings.Join(bo.results[i], "\n") != strings.Join(bo.seqResults[i], "\n") {
				if t.Config.Mode == "incremental" {
					viol("background-vs-none", "index-results-differ", "insert/delete/search results or the final index content differ from the same script run without the background rebalancer: "+firstDiff(bo.results[i], bo.seqResults[i]))
					break
				}
				viol("parallel-vs-sequential", "results-differ", fmt.Sprintf("task %d returned different results when interleaved with other handles", i))
				break
			}
		}
	}
	if bo.s != nil {
		res.Interleaving = bo.s.interleavingHash()
		res.NonTrivial = bo.s.interleaved(nfg)
		res.IOSteps = bo.s.steps
		inTick, stopInTick := false, false
		for _, ev := range bo.s.log {
			if strings.HasSuffix(ev.site, ".tick") {
				res.Probes["background-tick"]++
			}
			if t.Config.Mode == "smart" {
				switch {
				case ev.site == "incr.loop.entry":
					res.Probes["smart:monitor-or-caller-started-incremental-loop"]++
				case ev.site == "smart.loop.tick":
					inTick, stopInTick = true, false
				case ev.site == "smart.Stop.entry" && inTick:
					stopInTick = true
				case ev.site == "smart.loop.beforeApply" && stopInTick:
					res.Probes["smart:stop-arrived-during-a-tick-that-applies-a-decision"]++
					stopInTick = false
				}
			}
		}
	}
	if lp := os.Getenv("E4_LOG"); lp != "" && bo.s != nil {
		// determinism self-test: the full (task, site) event log of this run
		if f, err := os.OpenFile(lp, os.O_APPEND|os.O_CREATE|os.O_WRONLY, 0o644); err == nil {
			fmt.Fprintf(f, "RUN mode=%s hash=%x steps=%d simNs=%d\n", t.Config.Mode, bo.s.interleavingHash(), bo.s.steps, bo.simNs)
			for _, ev := range bo.s.log {
				fmt.Fprintf(f, "  %d %s\n", ev.task, ev.site)
			}
			f.Close()
		}
	}
	res.SimNs = bo.simNs
	res.Ops = 0
	for _, tk := range t.Tasks {
		res.Ops += len(tk.Script)
	}
	res.Fingerprint = fmt.Sprintf("%s|%x", t.Config.Mode, res.Interleaving)
	return res
}

func firstLines(s string, n int) string {
	ls := strings.Split(s, "\n")
	if len(ls) > n {
		ls = ls[:n]
	}
	return strings.Join(ls, "\n")
}

// ---------------------------------------------------------------------------
// shared poisoning pool and I/O yields (harness state: norace)

// poisonPool is the deterministic shared buffer pool. The free list is harness
// state (norace). Each buffer carries an atomic word: Put stores to it and Get
// loads it, which gives the race detector exactly the happens-before edge a
// real sync.Pool establishes between the Put of a buffer and the Get that
// hands the same buffer out again - and no edge between unrelated tasks.
type pooled struct {
	buf  []byte
	sync *uint32
}

type poolTag struct {
	base *byte
	tag  *uint32
}

type poisonPool struct {
	free []pooled
	tags []poolTag // no map: map operations are instrumented runtime calls
	// doubleRelease: a buffer was released while it was already in the pool (the
	// pool would hand the same memory to two users); holds the releasing function
	doubleRelease string
}

//go:norace
func (p *poisonPool) Get(size int) []byte {
	var buf []byte
	if n := len(p.free); n > 0 {
		e := p.free[n-1]
		p.free = p.free[:n-1]
		atomic.LoadUint32(e.sync)
		buf = e.buf
	} else {
		buf = make([]byte, 0, 4096)
	}
	if cap(buf) < size {
		return make([]byte, size, size*2)
	}
	return buf[:size]
}

//go:norace
func (p *poisonPool) Put(buf []byte) {
	if cap(buf) == 0 {
		return
	}
	b := buf[:cap(buf)]
	for k := range p.free {
		if fb := p.free[k].buf; cap(fb) > 0 && &fb[:1][0] == &b[0] {
			if p.doubleRelease == "" {
				p.doubleRelease = releaseSite()
			}
			return // keep the pool sound for the rest of the run
		}
	}
	poison(b)
	if len(p.free) < 64 {
		var tag *uint32
		for k := range p.tags {
			if p.tags[k].base == &b[0] {
				tag = p.tags[k].tag
				break
			}
		}
		if tag == nil {
			tag = new(uint32)
			p.tags = append(p.tags, poolTag{&b[0], tag})
		}
		atomic.StoreUint32(tag, 1)
		p.free = append(p.free, pooled{buf: buf[:0], sync: tag})
	}
}

// poison overwrites a released buffer. It is instrumented on purpose: a task
// that still reads a buffer it has released races with this write.
func poison(b []byte) {
	for i := range b {
		b[i] = 0xDB
	}
}

type yieldFile struct {
	f interface {
		ReadAt([]byte, int64) (int, error)
		WriteAt([]byte, int64) (int, error)
		Seek(int64, int) (int64, error)
		Sync() error
		Close() error
	}
}

func (y *yieldFile) ReadAt(p []byte, off int64) (int, error) {
	cur.yield("io:read")
	return y.f.ReadAt(p, off)
}
func (y *yieldFile) WriteAt(p []byte, off int64) (int, error) {
	cur.yield("io:write")
	return y.f.WriteAt(p, off)
}
func (y *yieldFile) Seek(o int64, w int) (int64, error) { return y.f.Seek(o, w) }
func (y *yieldFile) Sync() error                        { cur.yield("io:sync"); return nil }
func (y *yieldFile) Close() error                       { return y.f.Close() }

type yieldReadFile struct{ f *os.File }

func (y *yieldReadFile) ReadAt(p []byte, off int64) (int, error) {
	cur.yield("io:read")
	return y.f.ReadAt(p, off)
}
func (y *yieldReadFile) Close() error               { return y.f.Close() }
func (y *yieldReadFile) Stat() (os.FileInfo, error) { return y.f.Stat() }

func installIOYield() {
	writer.VerifWrapFile = func(f *os.File, _ string) writer.VerifFile { return &yieldFile{f: f} }
	hdf5.VerifWrapReadFile = func(f *os.File, _ string) hdf5.VerifReadFile { return &yieldReadFile{f: f} }
}

func uninstallIOYield() {
	writer.VerifWrapFile = nil
	hdf5.VerifWrapReadFile = nil
}

var _ = binary.LittleEndian

func init() {
	harness.Register(&harness.Prop{
		ID: "C18", Engine: "E4", Level: "exploration", Gen: genC18, Exec: execC18,
		Runs:      map[string]int{"quick": 10000, "thorough": 400000},
		Rule:      "one simulated run = one testing/synctest bubble in a -race binary; tasks (caller goroutines + the library's own ticker/monitor goroutines) are serialised by seeded fake-clock delays at yield points (operation boundaries, every I/O call through the H3/H4 seams, the H2 sites in the incremental/smart rebalancers and the selector, timer firings), which creates no happens-before edge, so the race detector reports every unsynchronised conflicting access pair that occurs; four workload kinds, the fourth (d, 1 in 11) without a bubble: (d) 2-14 operations on one WorkloadDetector (Record/ExtractFeatures/DetectWorkloadType/GetStats/IsClosed/Close) with an inline interleaving at the injected Clock seam - when the library reads the clock the simulator probes the detector's own lock with TryLock and, if it is free (another goroutine could get in at this instant), runs a whole second operation (Close/Record/ExtractFeatures/GetStats) right there before the first continues; results must be those of a sequential order (no panic, Record returns nil or 'closed', nothing accepted after a returned Close); (a) 2-5 independent handles (readers on shared files, writers on own files) whose results must equal the sequential ones, (b) one foreground task on a WritableBTreeV2 (insert/lazy delete/search/progress/stats/enable/stop, stop twice, enable after stop) against the incremental ticker at fake intervals of 1-8 microseconds, (c) 1-4 caller tasks on one SmartRebalancer (Record/Evaluate/GetStats/GetMetrics/Start/Stop) against its monitor goroutine, with an adapter over the real B-tree so mode changes really start and stop the incremental loop; oracles: no race report with a library frame, no panic, every Stop returns within the step budget, no library goroutine after the last Stop, results equal to sequential; non-trivial = a background event between two foreground events, or >= 2 switches between foreground tasks; distinct interleavings = distinct hashes of the (task, site) sequence",
		Technique: "deterministic simulation: seeded fake-time scheduler inside testing/synctest under the race detector",
		Assumptions: []string{"the B-tree writer API is documented as not thread-safe: exactly one foreground task drives it; several callers are used only where the code promises thread-safety (smart rebalancer) or independence (distinct handles)",
			"workload (d): on the unchanged tree every clock reading happens with the detector's lock held, so no interleaving can be injected there (probe inline:interleaving-injected stays 0, inline:seam-entered-with-lock-held counts the probes); an injection only becomes possible when a change opens a window",
			"interleavings are explored at the granularity of yield points, I/O calls and timer firings, not of individual memory accesses (data races are still reported whatever the order, because the detector is happens-before based)"},
		RealVsStub:      map[string]string{"real": "internal/structures B-tree + incremental rebalancer, internal/rebalancing smart rebalancer/detector/selector/metrics, public read/write API, Go runtime race detector", "simulated": "clock (synctest fake time), scheduler (seeded delays; lock-probing inline interleaving at the Clock seam), buffer pool (deterministic, poisoning), I/O yields behind H3/H4", "stub": "the rebalancing.BTreeV2 adapter over the real WritableBTreeV2 (the repository has no implementation outside test mocks)"},
		NeedsTestBinary: true, ReplayAttempts: 8,
		MaxShrinkExecs: 120,
	})
}

func firstDiff(a, b []string) string {
	for i := 0; i < len(a) && i < len(b); i++ {
		if a[i] != b[i] {
			x, y := a[i], b[i]
			if len(x) > 120 {
				x = x[:120]
			}
			if len(y) > 120 {
				y = y[:120]
			}
			return fmt.Sprintf("result %d: %q vs %q", i, x, y)
		}
	}
	return fmt.Sprintf("%d vs %d results", len(a), len(b))
}

// setIncrInterval tells the scheduler the ticker period of the incremental
// rebalancer that is about to start (see sched.incrInterval).
//
//go:norace
func (e *env) setIncrInterval(d time.Duration) {
	if e.s != nil {
		e.s.incrInterval = d
	}
}

//go:norace
func setIncrIntervalCur(d time.Duration) {
	if cur != nil {
		cur.incrInterval = d
	}
}

// releaseSite names the innermost library function on the current stack.
func releaseSite() string {
	buf := make([]byte, 8192)
	n := runtime.Stack(buf, false)
	for _, l := range strings.Split(string(buf[:n]), "\n") {
		l = strings.TrimSpace(l)
		if strings.HasPrefix(l, "github.com/scigolib/hdf5") && !strings.HasPrefix(l, "github.com/scigolib/hdf5/verifsim") && !strings.Contains(l, "internal/utils.") {
			fn := strings.TrimPrefix(l, "github.com/scigolib/hdf5")
			if k := strings.LastIndex(fn, "("); k > 0 {
				fn = fn[:k]
			}
			return fn
		}
	}
	return "?"
}
