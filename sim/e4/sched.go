// Package e4 is the schedule simulator. Everything runs inside a
// testing/synctest bubble (fake clock, quiescence detection) in a binary built
// with -race. Tasks - caller goroutines and the library's own background
// goroutines - are serialised BY THE FAKE CLOCK ONLY: a task that reaches a
// yield point sleeps a fake duration drawn from its own delay stream; the
// bubble's clock advances only when every goroutine is durably blocked and then
// wakes the earliest sleeper, so exactly one task runs at a time and the order
// is a pure function of the delays - yet sleeping creates no happens-before
// edge, so the race detector still sees every unsynchronised conflicting access
// pair. Harness state shared between tasks is touched only in //go:norace
// functions (a mutex or channel there would be a happens-before edge hiding
// library races; plain access would be reported as a harness race).
package e4

import (
	"runtime"
	"time"
)

const slot = 1024 * time.Nanosecond

type event struct {
	task int32
	site string
}

type taskState struct {
	name   string
	delays []int64
	next   int
	goid   uint64
	done   bool
	panic  string
	result []string
	// lastTick: fake time of this background task's last ticker wake-up (or of
	// its first event), see sched.incrInterval
	lastTick    time.Duration
	hasLastTick bool
}

type sched struct {
	start    time.Time
	tasks    []*taskState
	nextWake time.Duration // last wake-up instant handed out (multiple of slot)
	log      []event
	steps    int
	maxSteps int
	bgSeen   int
	// noSleep lists site prefixes at which a task must not sleep in this run
	// because the site is reached while a library lock is held (a goroutine
	// blocked on a sync.Mutex is not durably blocked: the bubble's clock could
	// never advance and the run would hang in real time).
	noSleep []string
	// bgNoSleep: background (library) goroutines never sleep at yield points in
	// this run. Needed where callers serialise on a library mutex while they
	// wait for a background goroutine (SmartRebalancer.Stop holds its lifecycle
	// mutex while waiting for the monitor): a second caller blocked on that
	// mutex is not durably blocked, so fake time could not advance to wake a
	// sleeping monitor.
	bgNoSleep bool
	nfg       int
	// incrInterval / smartInterval: the ticker periods of the library's two
	// background loops. A background task may sleep at a yield point only if it
	// wakes before its ticker's next firing. Otherwise, back at its select, both
	// a pending tick and a stop/cancel request could be ready, and Go's select
	// chooses among ready cases with the runtime's unseeded PRNG - the one
	// source of nondeterminism the simulator could not own any other way.
	incrInterval  time.Duration
	smartInterval time.Duration
}

var cur *sched

//go:norace
func goid() uint64 {
	var buf [40]byte
	n := runtime.Stack(buf[:], false)
	// "goroutine 123 [running]:"
	var id uint64
	for i := len("goroutine "); i < n && buf[i] >= '0' && buf[i] <= '9'; i++ {
		id = id*10 + uint64(buf[i]-'0')
	}
	return id
}

// taskOf finds (or registers, for the library's background goroutines) the
// task of the calling goroutine.
//
//go:norace
func (s *sched) taskOf() (int, *taskState) {
	g := goid()
	for i, t := range s.tasks {
		if t.goid == g {
			return i, t
		}
	}
	// an unknown goroutine: a background goroutine the library started. They
	// are numbered in order of first appearance, which is deterministic because
	// the schedule is.
	for i, t := range s.tasks {
		if t.goid == 0 && len(t.name) > 1 && t.name[:2] == "bg" {
			t.goid = g
			s.bgSeen++
			return i, t
		}
	}
	t := &taskState{name: "bg-extra", goid: g}
	s.tasks = append(s.tasks, t)
	return len(s.tasks) - 1, t
}

// bind registers the calling goroutine as task i.
//
//go:norace
func (s *sched) bind(i int) {
	s.tasks[i].goid = goid()
}

// yield is a scheduler yield point. It must be called with no lock held.
//
//go:norace
func (s *sched) yield(site string) {
	if s == nil {
		return
	}
	i, t := s.taskOf()
	s.log = append(s.log, event{int32(i), site})
	s.steps++
	var d int64
	if t.next < len(t.delays) {
		d = t.delays[t.next]
	}
	t.next++
	if d <= 0 || s.steps > s.maxSteps {
		return
	}
	bg := i >= s.nfg && t.name != "main"
	if s.bgNoSleep && bg {
		return
	}
	for _, p := range s.noSleep {
		if len(site) >= len(p) && site[:len(p)] == p {
			return
		}
	}
	if bg {
		now := time.Since(s.start)
		if !t.hasLastTick || (len(site) > 5 && site[len(site)-5:] == ".tick") {
			t.lastTick, t.hasLastTick = now, true
		}
		iv := s.incrInterval
		if len(site) >= 5 && (site[:5] == "smart" || site[:5] == "selec") {
			iv = s.smartInterval
		}
		if iv > 0 && s.wakeFor(now, d) >= t.lastTick+iv-slot/2 {
			return // would sleep across the next tick
		}
	}
	s.sleepSlots(d)
}

// wakeFor computes the wake-up instant sleepSlots would choose.
//
//go:norace
func (s *sched) wakeFor(now time.Duration, d int64) time.Duration {
	want := (now/slot + time.Duration(d)) * slot
	if want <= s.nextWake {
		want = s.nextWake + slot
	}
	return want
}

// sleepSlots sleeps d slots of fake time, at a wake-up instant no other harness
// task has been given, so that two harness tasks never become runnable at the
// same instant.
//
//go:norace
func (s *sched) sleepSlots(d int64) {
	now := time.Since(s.start)
	want := (now/slot + time.Duration(d)) * slot
	if want <= s.nextWake {
		want = s.nextWake + slot
	}
	s.nextWake = want
	time.Sleep(want - now)
}

//go:norace
func (s *sched) markDone(i int, pan string) {
	s.tasks[i].done = true
	s.tasks[i].panic = pan
}

//go:norace
func (s *sched) allDone(n int) bool {
	for i := 0; i < n; i++ {
		if !s.tasks[i].done {
			return false
		}
	}
	return true
}

//go:norace
func (s *sched) addResult(i int, r string) {
	s.tasks[i].result = append(s.tasks[i].result, r)
}

//go:norace
func (s *sched) interleavingHash() uint64 {
	h := uint64(1469598103934665603)
	for _, e := range s.log {
		h ^= uint64(e.task) + 1
		h *= 1099511628211
		for k := 0; k < len(e.site); k++ {
			h ^= uint64(e.site[k])
			h *= 1099511628211
		}
	}
	return h
}

// bgTickBetweenFg reports whether a background task's event lies between two
// foreground events (the run really interleaved).
//
//go:norace
func (s *sched) interleaved(nfg int) bool {
	sawFg := false
	sawBgAfterFg := false
	for _, e := range s.log {
		fg := int(e.task) < nfg
		if fg && sawBgAfterFg {
			return true
		}
		if fg {
			sawFg = true
		} else if sawFg {
			sawBgAfterFg = true
		}
	}
	// several foreground tasks interleaving with each other also counts
	last := int32(-1)
	switches := 0
	for _, e := range s.log {
		if int(e.task) < nfg && e.task != last {
			if last >= 0 {
				switches++
			}
			last = e.task
		}
	}
	return switches >= 2
}
