package e4

import (
	"encoding/json"
	"flag"
	"fmt"
	"os"
	"os/exec"
	"path/filepath"
	"strings"
	"testing"
	"time"

	"github.com/scigolib/hdf5/verifsim/harness"
)

// TestE4 is the entry point of the schedule simulator's binary (built with
// `go test -c -race -tags verif`). The vsim sub-command and its arguments are
// passed in VSIM_ARGS (a JSON array): check | worker | replay.
func TestE4(t *testing.T) {
	raw := os.Getenv("VSIM_ARGS")
	if raw == "" {
		t.Skip("VSIM_ARGS not set: this test is the entry point of the E4 worker binary")
	}
	var args []string
	if err := json.Unmarshal([]byte(raw), &args); err != nil || len(args) == 0 {
		fmt.Println("INFRA: bad VSIM_ARGS")
		os.Exit(2)
	}
	CurT = t
	self, _ := os.Executable()
	harness.CommandFor = func(exe string, a []string) *exec.Cmd {
		b, _ := json.Marshal(a)
		c := exec.Command(exe, "-test.run=^TestE4$", "-test.timeout=0", "-test.count=1")
		raceDir, _ := os.MkdirTemp(scratch(), "verif-race-")
		c.Env = append(os.Environ(), "VSIM_ARGS="+string(b),
			"GORACE=log_path="+filepath.Join(raceDir, "r")+" halt_on_error=0 exitcode=0 suppress_equal_stacks=0 suppress_equal_addresses=0 history_size=3")
		return c
	}
	code := 0
	switch args[0] {
	case "check":
		fs := flag.NewFlagSet("check", flag.ExitOnError)
		pid := fs.String("p", "", "property")
		tier := fs.String("tier", "quick", "tier")
		_ = fs.Parse(args[1:])
		p := harness.Registry[*pid]
		if p == nil {
			fmt.Println("INFRA: unknown property", *pid)
			os.Exit(2)
		}
		code = harness.Check(p, *tier, self)
	case "worker":
		code = worker(args[1:])
	case "replay":
		fs := flag.NewFlagSet("replay", flag.ExitOnError)
		_ = fs.Int("mem", 0, "ignored")
		_ = fs.Parse(args[1:])
		code = harness.Replay(fs.Arg(0))
	default:
		fmt.Println("INFRA: unknown sub-command", args[0])
		code = 2
	}
	cleanupRaceDir()
	os.Exit(code)
}

func scratch() string {
	if st, err := os.Stat("/dev/shm"); err == nil && st.IsDir() {
		return "/dev/shm"
	}
	return "/var/tmp"
}

func cleanupRaceDir() {
	// only a private directory made for this run (the driver's); a log path given
	// directly under the shared scratch root (the determinism self-test does
	// that) must not take the root with it
	if d := filepath.Dir(raceLogPath); raceLogPath != "" && strings.HasPrefix(filepath.Base(d), "verif-") {
		_ = os.RemoveAll(d)
	}
}

func worker(args []string) int {
	fs := flag.NewFlagSet("worker", flag.ExitOnError)
	pid := fs.String("p", "", "property")
	tier := fs.String("tier", "quick", "tier")
	seed := fs.Uint64("seed", 1, "seed")
	w := fs.Int("worker", 0, "worker index")
	n := fs.Int("workers", 1, "worker count")
	known := fs.String("known", "[]", "known signature regexps (JSON)")
	deadline := fs.Int("deadline", 0, "soft deadline seconds")
	runs := fs.Int("runs", 0, "override total runs")
	from := fs.Int("from", 0, "first absolute run index")
	skipsub := fs.Int("skipsub", 0, "sub-runs already executed")
	progress := fs.String("progress", "", "progress file")
	_ = fs.Int("mem", 0, "ignored (the race runtime needs a large address space)")
	_ = fs.Parse(args)
	p := harness.Registry[*pid]
	if p == nil {
		return 2
	}
	var ks []string
	_ = json.Unmarshal([]byte(*known), &ks)
	dir := harness.ScratchDir(*pid)
	defer os.RemoveAll(dir)
	emit := func(s *harness.Summary) {
		b, _ := json.Marshal(s)
		fmt.Println(string(b))
	}
	s := harness.RunWorker(p, harness.WorkerArgs{Tier: *tier, Seed: *seed, Worker: *w, Workers: *n, Known: ks, Dir: dir,
		Deadline: time.Duration(*deadline) * time.Second, Runs: *runs, FromIdx: *from, SkipSub: *skipsub, Progress: *progress, Emit: emit})
	emit(s)
	return 0
}
