// Package rng is the single source of randomness of the generators: a PCG
// stream derived from (VERIF_SEED, property, worker, run index).
package rng

import (
	"hash/fnv"
	"math/rand/v2"
)

type R struct {
	*rand.Rand
	Seed uint64
}

// New derives a stream from a base seed and a label path.
func New(seed uint64, labels ...string) *R {
	h := fnv.New64a()
	for _, l := range labels {
		h.Write([]byte(l))
		h.Write([]byte{0})
	}
	s2 := h.Sum64()
	return &R{Rand: rand.New(rand.NewPCG(seed, s2)), Seed: seed}
}

// Sub derives an independent child seed.
func (r *R) Sub() uint64 { return r.Uint64() }

func (r *R) Intn(n int) int {
	if n <= 0 {
		return 0
	}
	return r.IntN(n)
}

// Range returns an int in [lo, hi].
func (r *R) Range(lo, hi int) int {
	if hi <= lo {
		return lo
	}
	return lo + r.IntN(hi-lo+1)
}

func (r *R) Chance(p float64) bool { return r.Float64() < p }

func Pick[T any](r *R, xs []T) T { return xs[r.Intn(len(xs))] }

// Weighted picks an index according to weights.
func (r *R) Weighted(w []int) int {
	t := 0
	for _, x := range w {
		t += x
	}
	if t <= 0 {
		return 0
	}
	k := r.Intn(t)
	for i, x := range w {
		if k < x {
			return i
		}
		k -= x
	}
	return len(w) - 1
}
