#!/bin/bash
# check.sh <Cnn> <quick|thorough>: rebuild the simulator against /repo's current
# working tree (hooks on: -tags verif), run the check, pass its exit code on.
#   0 = property held on everything explored (KNOWN-FINDING lines allowed)
#   1 = violation (a line "VIOLATION property=<id> replay=<path>" was printed)
#   2 = infrastructure trouble (build failure, watchdog, ...), never a VIOLATION
set -u
PROP="${1:?property id}"
TIER="${2:-${VERIF_TIER:-quick}}"
export GOFLAGS=-mod=mod GOPROXY=off GOSUMDB=off GOTOOLCHAIN=local CGO_ENABLED=1
GO=go1.26.8
command -v $GO >/dev/null 2>&1 || GO=/opt/veriftools/go1.26.8/bin/go
HERE="$(cd "$(dirname "$0")" && pwd)"
cd "$HERE/sim" || exit 2
cp -f /repo/go.sum go.sum 2>/dev/null
mkdir -p "$HERE/bin"
if [ "$PROP" = C18 ]; then
  # E4, the schedule simulator, is a race-enabled test binary (synctest needs a *testing.T)
  if ! $GO test -c -race -tags verif -o "$HERE/bin/e4.test" ./e4 >"$HERE/bin/build-e4.log" 2>&1; then
    echo "INFRA: build of e4.test failed"; cat "$HERE/bin/build-e4.log"; exit 2
  fi
  export VSIM_ARGS="[\"check\",\"-p\",\"$PROP\",\"-tier\",\"$TIER\"]"
  "$HERE/bin/e4.test" -test.run='^TestE4$' -test.timeout=0 -test.count=1 | grep -v -E '^(--- FAIL: TestE4|FAIL$|PASS$|ok |exit status|\s+testing\.go:[0-9]+: race detected)'
  exit "${PIPESTATUS[0]}"
fi
if ! $GO build -tags verif -o "$HERE/bin/vsim" ./cmd/vsim >"$HERE/bin/build.log" 2>&1; then
  echo "INFRA: build of vsim failed"; cat "$HERE/bin/build.log"; exit 2
fi
exec "$HERE/bin/vsim" check -p "$PROP" -tier "$TIER"
